(* C18 — A monitor only observes, and only its own call.
   Model: Model/Monitor.v interprets internal/monitor/monitor.go from the table of guarded actions that the
   translator regenerates from the source on every run (Generated/Facts.v); proofs: Proofs/MonitorProofs.v.
   Histories are sequences of Layout calls, one after the other; the body of a call is an ARBITRARY list of
   PrefixFor/Log calls, so a call that ends in a panic at any point is included (the deferred Reset runs). *)
From Coq Require Import String List Bool.
From Autog Require Import Facts Monitor MonitorProofs FactsChecks.
Import ListNotations.

(* --- the tie to the source: obligations over the regenerated facts --- *)
Theorem C18_monitor_source_is_the_modelled_table : monitor_funcs = expected_funcs.
Proof. reflexivity. Qed.
Print Assumptions C18_monitor_source_is_the_modelled_table.

Theorem C18_layout_sets_then_defers_reset : protocol_ok layout_protocol = true /\ set_reset_only_in_layout = true.
Proof. split; vm_compute; reflexivity. Qed.
Print Assumptions C18_layout_sets_then_defers_reset.

(* supplying a monitor cannot change the layout: the layout code never reads the monitor's variables (they are
   private to monitor.go) and the four functions return nothing *)
Theorem C18_monitor_state_is_private : monitor_state_private = true.
Proof. vm_compute; reflexivity. Qed.
Print Assumptions C18_monitor_state_is_private.

(* --- the behaviour, for every history --- *)
(* every call leaves the package in its initial state, and whatever a call delivers goes to the monitor that
   call was given *)
Theorem C18_history : forall calls,
  let '(evs, s) := history calls m_init in
  s = m_init /\ Forall2 (fun (c : lcall) ev => forall e, In e ev -> fst c = Some (fst (fst e))) calls evs.
Proof. exact history_spec. Qed.
Print Assumptions C18_history.

(* a monitor never receives anything from a call it was not passed to — in particular not from later calls *)
Theorem C18_events_only_from_own_call : forall calls i c ev e,
  nth_error calls i = Some c -> nth_error (fst (history calls m_init)) i = Some ev -> In e ev ->
  fst c = Some (fst (fst e)).
Proof. exact events_only_from_own_call. Qed.
Print Assumptions C18_events_only_from_own_call.

Theorem C18_single_call : forall mon body,
  exists ev w, run T (layout_call mon body) m_init = (m_init, ev, w)
               /\ forall e, In e ev -> mon = Some (fst (fst e)).
Proof. exact layout_call_spec. Qed.
Print Assumptions C18_single_call.
