(* C19 — Corridor shortest path is truly shortest and stays inside the corridor.  PARTIAL, with a refutation.
   Model: Model/Geom.v — an exact rational model of Triangulate + Shortest (triangulation of the merged
   rectangles, dual graph, crossed diagonals, funnel with its array deque and predecessor map), tied to the code
   by a correspondence on random corridors: the model must return the implementation's path point for point, fail
   when it panics and run out of fuel when it does not return. Proofs: Proofs/GeomProofs.v.
   What is proved for all inputs:
   - a verified containment checker: [path_inside rects path = true] implies that every point of every segment
     of the path lies in the corridor (C19_containment_checker_sound). The check evaluates it in the kernel on the
     answer of every explored corridor of the router's class — containment is certified per instance;
   - one rectangle: the router answers the straight segment, which is inside (convexity) and which no polyline
     between the same end points — inside or not — beats (C19_one_rectangle_optimal; uses the real numbers);
   - the length of any polyline is at least the distance of its end points (C19_straight_is_shortest).
   What is refuted: the property as stated (start anywhere in the first, end anywhere in the last rectangle) is
   FALSE of the faithful model and of the code: C19_refuted_loops, C19_refuted_panics — start or end on the
   bottom-right corner of a single rectangle (recorded finding `degenerate-position`: start or end collinear with two
   corridor vertices), and C19_refuted_last_rectangle_widens (recorded finding `last-rect-widens-both`). Every other start/end position
   strictly inside the first/last rectangle is searched (class 'interior' of the check).
   - TWO rectangles, the whole property inside the router's class (C19_two_rectangles_correct, Proofs/GeomTwo*.v): for
     every pair of stacked rectangles sharing a boundary segment of positive length — all nine relative positions of
     their sides — a start strictly inside the top edge of the first and an end strictly inside the bottom edge of the
     second, the router returns, by symbolic evaluation of triangulation, dual graph and funnel, the straight segment
     when it crosses the shared segment and otherwise the bend at the nearer end of the shared segment; that path is
     inside the corridor, and no polyline inside the corridor between the same points is shorter (any inside path meets
     the shared level inside the shared segment; distance to a fixed point is convex along a segment; real numbers).
   What is not proved: for corridors of three or more rectangles, that the funnel's answer is the shortest path inside
   the corridor (needs the theory of taut paths in simple polygons; not mechanised). It is searched against an
   independent visibility-graph/Dijkstra reference inside the router's class, on corridors of up to 18 rectangles.
   For corridors of ANY length (end of this file, Proofs/GeomPaths*.v): the triangulation has 1..7 triangles per rectangle, each inside one
   rectangle, and covers exactly the corridor; the answer runs from the end to the start point through rectangle corners and all its
   points are in the corridor; of the four failure modes of the code only two are reachable in a well-formed corridor.
   Axioms: the three theorems about real lengths depend on the standard library's classical real-number axioms
   (ClassicalDedekindReals.sig_not_dec, sig_forall_dec, FunctionalExtensionality.functional_extensionality_dep);
   everything else is closed under the global context. *)
From Coq Require Import List QArith Reals.
From Autog Require Import Base Geom GeomProofs.
Import ListNotations.

Theorem C19_containment_checker_sound : forall rects path, path_inside rects path = true ->
  forall a b p, consecutive a b path -> on_segment a b p -> in_corridor rects p.
Proof. exact path_inside_sound. Qed.
Print Assumptions C19_containment_checker_sound.

Theorem C19_corridor_well_formedness_decidable : forall rects, corridor_ok rects = true <-> corridor_wf rects.
Proof. exact corridor_ok_iff. Qed.
Print Assumptions C19_corridor_well_formedness_decidable.

(* one rectangle: the answer is the straight segment [end; start] unless one point is the bottom-right corner *)
Theorem C19_one_rectangle : forall r p1 p2,
  rect_strict r -> in_rect r p1 -> in_rect r p2 -> ~ pt_eq p1 (r_br r) -> ~ pt_eq p2 (r_br r) ->
  exists path, shortest p1 p2 [r] = Ok path /\ path_inside [r] path = true /\
               forall p, on_segment p2 p1 p -> in_rect r p.
Proof. exact shortest_one_rect_inside. Qed.
Print Assumptions C19_one_rectangle.

Theorem C19_one_rectangle_optimal : forall r p1 p2,
  rect_strict r -> in_rect r p1 -> in_rect r p2 -> ~ pt_eq p1 (r_br r) -> ~ pt_eq p2 (r_br r) ->
  exists path, shortest p1 p2 [r] = Ok path /\ path_inside [r] path = true /\
    forall other : list pt, hd_error other = Some p2 -> last other p2 = p1 ->
      (RealLength.rlen path <= RealLength.rlen other)%R.
Proof. exact one_rect_optimal. Qed.
Print Assumptions C19_one_rectangle_optimal.

Theorem C19_straight_is_shortest : forall (path : list pt) p2 p1,
  hd_error path = Some p2 -> last path p2 = p1 -> (RealLength.rlen [p2; p1] <= RealLength.rlen path)%R.
Proof. exact RealLength.straight_is_shortest_pt. Qed.
Print Assumptions C19_straight_is_shortest.

(* the refutation: both points inside a single 10 x 6 rectangle, one of them its bottom-right corner *)
Theorem C19_refuted_loops : shortest (3, 0)%Q (10, 6)%Q [mkRect (0, 0)%Q (10, 6)%Q] = Err (ErrFuel 65).
Proof. exact ex_one_rect_loops. Qed.
Print Assumptions C19_refuted_loops.

Theorem C19_refuted_panics : shortest (10, 6)%Q (3, 0)%Q [mkRect (0, 0)%Q (10, 6)%Q] = Err (ErrIndex 63).
Proof. exact ex_one_rect_panics. Qed.
Print Assumptions C19_refuted_panics.

(* a second, differently shaped refutation (recorded finding `last-rect-widens-both`): the end point strictly INSIDE the last rectangle,
   which extends beyond its predecessor on both sides; start and end in general position. The router answers the detour through the
   bottom-right corner of the last rectangle, although the straight segment lies inside the (well-formed) corridor and is shorter
   than the detour's second leg alone *)
Definition c19w_rects := [mkRect (72, 24)%Q (136, 48)%Q; mkRect (40, 48)%Q (152, 96)%Q].
Definition c19w_start : pt := (627 # 8, 425 # 16)%Q.
Definition c19w_end : pt := (1007 # 8, 829 # 16)%Q.
Theorem C19_refuted_last_rectangle_widens :
  shortest c19w_start c19w_end c19w_rects = Ok [c19w_end; (152, 96)%Q; c19w_start] /\
  corridor_ok c19w_rects = true /\ path_inside c19w_rects [c19w_end; c19w_start] = true /\
  ((fst c19w_end - fst c19w_start) ^ 2 + (snd c19w_end - snd c19w_start) ^ 2 <
   (152 - fst c19w_start) ^ 2 + (96 - snd c19w_start) ^ 2)%Q.
Proof. repeat split; vm_compute; reflexivity. Qed.
Print Assumptions C19_refuted_last_rectangle_widens.

(* ---------- two rectangles: the property in full inside the router's class (Proofs/GeomTwo.v, GeomTwo2.v) ---------- *)
From Autog Require Import GeomTwo GeomTwo2.

Theorem C19_two_rectangles_answer : forall r1 r2 p1 p2, two_rect_class r1 r2 p1 p2 = true ->
  shortest p1 p2 [r1; r2] = Ok (two_rect_path r1 r2 p1 p2).
Proof. exact shortest_two_rect. Qed.
Print Assumptions C19_two_rectangles_answer.

Theorem C19_two_rectangles_correct : forall r1 r2 p1 p2, two_rect_class r1 r2 p1 p2 = true ->
  exists path,
    shortest p1 p2 [r1; r2] = Ok path /\
    hd_error path = Some p2 /\ last path p2 = p1 /\
    path_inside [r1; r2] path = true /\
    (forall a b p, consecutive a b path -> on_segment a b p -> in_corridor [r1; r2] p) /\
    (forall other : list pt, hd_error other = Some p2 -> last other p2 = p1 -> polyline_inside [r1; r2] other ->
       (RealLength.rlen path <= RealLength.rlen other)%R).
Proof. exact two_rect_correct. Qed.
Print Assumptions C19_two_rectangles_correct.

(* ---------- corridors of ANY length (Proofs/GeomPaths*.v): what is proved of the exact model of geom.Shortest for every number of
   rectangles. NOT proved for three or more rectangles: that every SEGMENT of the answer lies in the corridor (only every POINT does)
   and that the answer is shortest; those stay certified per instance by the verified checker and searched. ---------- *)
From Autog Require Import GeomPaths GeomPaths2 GeomPaths3 GeomPaths4 GeomPaths5 GeomPaths7.

(* the triangulation: linear size, every triangle inside one rectangle with corners of that rectangle or a neighbour as vertices,
   and the triangles cover exactly the corridor *)
Theorem C19_triangulation_size : forall rects,
  (length rects <= length (triangulate rects) <= 7 * length rects)%nat.
Proof. exact triangulate_count. Qed.
Print Assumptions C19_triangulation_size.

Theorem C19_triangulation_is_the_corridor : forall rects p, corridor_wf rects -> corridor_strict rects ->
  (in_corridor rects p <-> exists t, In t (triangulate rects) /\ tri_contains t p = true).
Proof. exact triangulation_exact. Qed.
Print Assumptions C19_triangulation_is_the_corridor.

Theorem C19_triangles_inside_the_corridor : forall rects t p,
  corridor_wf rects -> In t (triangulate rects) -> in_triangle t p -> in_corridor rects p.
Proof. exact triangulate_inside_corridor. Qed.
Print Assumptions C19_triangles_inside_the_corridor.

(* the answer, for ALL inputs: it runs from the end point to the start point, and every other point is a vertex of the triangulation *)
Theorem C19_answer_shape : forall p1 p2 rects path, shortest p1 p2 rects = Ok path ->
  exists rest, path = p2 :: rest /\ rest <> [] /\ pt_eqb (last path (0, 0)%Q) p1 = true /\
               forall q, In q rest -> q = p1 \/ tri_vertex rects q.
Proof. exact shortest_shape. Qed.
Print Assumptions C19_answer_shape.

(* ... hence every point of the answer lies in the corridor (every point: not yet every segment) *)
Theorem C19_answer_points_inside : forall p1 p2 rects path,
  corridor_wf rects -> in_corridor rects p1 -> in_corridor rects p2 -> shortest p1 p2 rects = Ok path ->
  forall q, In q path -> in_corridor rects q.
Proof. exact shortest_points_inside. Qed.
Print Assumptions C19_answer_points_inside.

(* the Go panic "disconnected triangulation diagonal" is unreachable for every input; for points of a well-formed corridor the
   triangle search never fails either: only the deque overflow (63) and the predecessor loop (65) remain — the two failures of the
   recorded finding `degenerate-position` *)
Theorem C19_no_disconnected_diagonal : forall p1 p2 rects, shortest p1 p2 rects <> Err (ErrIndex 64).
Proof. exact shortest_no_disconnected. Qed.
Print Assumptions C19_no_disconnected_diagonal.

Theorem C19_only_two_failures_in_a_corridor : forall rects p1 p2 e,
  corridor_wf rects -> corridor_strict rects -> in_corridor rects p1 -> in_corridor rects p2 ->
  shortest p1 p2 rects = Err e -> e = ErrIndex 63 \/ e = ErrFuel 65.
Proof. exact corridor_errors. Qed.
Print Assumptions C19_only_two_failures_in_a_corridor.

(* inside the router's class, any number of rectangles: end point, corners of rectangles, start point — all in the corridor *)
Theorem C19_in_class_outcome : forall rects p1 p2, corridor_class rects p1 p2 = true ->
  (exists mid, shortest p1 p2 rects = Ok (p2 :: mid ++ [p1]) /\
     (forall q, In q mid -> tri_vertex rects q /\ exists r, In r rects /\ corner_of r q) /\
     (forall q, In q (p2 :: mid ++ [p1]) -> in_corridor rects q)) \/
  shortest p1 p2 rects = Err (ErrIndex 63) \/ shortest p1 p2 rects = Err (ErrFuel 65).
Proof. exact class_total_outcome. Qed.
Print Assumptions C19_in_class_outcome.

(* not vacuous: a four-rectangle staircase in the class, and its answer *)
Example C19_staircase_instance :
  corridor_class stair4 (20, 0)%Q (40, 80)%Q = true /\
  shortest (20, 0)%Q (40, 80)%Q stair4 = Ok [(40, 80); (56, 56); (56, 40); (20, 0)]%Q.
Proof. split; [exact stair4_class | exact stair4_shortest]. Qed.

(* ---------- the funnel loop, any number of rectangles (Proofs/GeomContain4.v): every state it reaches keeps its window inside the
   array, its apex inside the window and both chains convex; every step of the answer is a "good link" — the point the loop was at
   when it recorded the predecessor was outside the corresponding chain. (What is still missing for containment with four or more
   rectangles: that the two ends of a link see each other inside the corridor.) The containment of every SEGMENT is proved for all
   corridors of up to three rectangles in coq/Heavy (C19Three.v, built by bin/heavy: about an hour). ---------- *)
From Autog Require Import GeomContain4.
Theorem C19_funnel_links : forall dl prev d apex pm pm', fstate d apex -> funnel dl prev d apex pm = Ok pm' ->
  forall v u, In (v, u) pm' -> In (v, u) pm \/ good_link v u.
Proof. exact funnel_links. Qed.
Print Assumptions C19_funnel_links.

Theorem C19_answer_steps_are_good_links : forall p1 p2 rects path, shortest p1 p2 rects = Ok path ->
  forall a b, consecutive a b path -> (exists k, pt_eqb k a = true /\ good_link k b) \/ b = p1.
Proof. exact shortest_links. Qed.
Print Assumptions C19_answer_steps_are_good_links.
