(* C20 — Fitted splines stay inside their corridor.  PARTIAL.
   Model: Model/SplineStruct.v — the control flow of FitSpline (try to fit one cubic; otherwise split the path at
   the point of maximum error and fit both halves with a shared tangent) over an ABSTRACT numeric oracle: the
   Schneider fit, the containment test with its cubic root finder and the error measure use sqrt, cbrt, atan2
   and cos on float64, for which there is no specification to prove against. Proofs: Proofs/SplineProofs.v.
   Proved for EVERY oracle that (a) keeps the first and last control point when a fit succeeds (adjust does),
   (b) picks a split index strictly inside the path (the loop of maxerr does, for paths of 3 or more points and
   non-NaN distances), (c) accepts a 2-point path (tryfit does when the slide factor reaches 0):
   - the fitter terminates, within fuel = length of the path (C20_terminates);
   - the pieces are not empty, start at the path's first point, end at its last point and join end to end:
     4k control points whose cubic pieces share their end points (C20_pieces_join);
   - every piece starts and ends on a path point, in path order (C20_knots_are_path_points).
   The root finder (solve1/solve2/solve3 of spline_solve.go) IN EXACT REAL ARITHMETIC, statement by statement with the
   zero tests exact (Proofs/RootsReal.v): for every polynomial that is not identically zero it returns every real root
   and nothing that is not a root — the three cosine values when the discriminant is negative (cos 3t = 4cos^3 t - 3cos t),
   the single Cardano value when it is positive (the quadratic cofactor is positive), the simple and the double root
   when it is zero (C20_root_finder_exact). The floating-point code differs by rounding: a repeated root (discriminant
   exactly 0) is lost when rounding makes the discriminant slightly positive — the recorded finding `repeated-root` —
   and the tolerance 1e-10 of the zero tests drops a root when a leading coefficient is tiny. These theorems use the
   standard library's classical real-number axioms (sig_forall_dec, sig_not_dec, functional_extensionality_dep, classic).
   The containment test (curveIntersects, curveContained) in exact real arithmetic is modelled and characterised at the end of this
   file (Proofs/CurveReal*.v): what it accepts, exactly; that with zero tolerances acceptance implies containment in a rectangle.
   Not proved: that the fitted curves stay inside the corridor up to the tolerance (Schneider fit, Bernstein evaluation
   and the containment test on float64). This is SEARCHED on the implementation: pieces sampled densely against the
   corridor enlarged by 0.05 on random, staircase and zigzag corridors; the containment test on synthetic cubics;
   solve3 against polynomials built from chosen roots. *)
From Coq Require Import List Arith.
From Autog Require Import Base SplineStruct SplineProofs.
Import ListNotations.

Theorem C20_terminates : forall (P : Type) (tryfit : piece P -> list P -> P -> P -> option (piece P))
    (maxerr : list P -> P -> P -> nat) (tangent : list P -> nat -> P) (ctrl0 : list P -> P -> P -> P * P),
  tryfit_keeps_ends tryfit -> maxerr_inner maxerr -> tryfit_two_points tryfit ->
  forall (path : list P) (t1 t2 : P), (2 <= length path)%nat ->
  exists ps, fit_spline tryfit maxerr tangent ctrl0 (length path) path t1 t2 = Ok ps /\ chain path ps.
Proof. exact fit_spline_total. Qed.
Print Assumptions C20_terminates.

Theorem C20_pieces_join : forall (P : Type) (tryfit : piece P -> list P -> P -> P -> option (piece P))
    (maxerr : list P -> P -> P -> nat) (tangent : list P -> nat -> P) (ctrl0 : list P -> P -> P -> P * P),
  tryfit_keeps_ends tryfit ->
  forall (fuel : nat) (path : list P) (t1 t2 : P) (ps : list (piece P)) (d : P) (dp : piece P),
  (2 <= length path)%nat -> fit_spline tryfit maxerr tangent ctrl0 fuel path t1 t2 = Ok ps ->
  ps <> [] /\ p0 (hd dp ps) = hd d path /\ p3 (last ps dp) = last path d /\ joined ps /\
  length (ctrl_points ps) = (4 * length ps)%nat.
Proof. exact fit_spline_shape. Qed.
Print Assumptions C20_pieces_join.

Theorem C20_knots_are_path_points : forall (P : Type) (tryfit : piece P -> list P -> P -> P -> option (piece P))
    (maxerr : list P -> P -> P -> nat) (tangent : list P -> nat -> P) (ctrl0 : list P -> P -> P -> P * P),
  tryfit_keeps_ends tryfit ->
  forall (fuel : nat) (path : list P) (t1 t2 : P) (ps : list (piece P)),
  (2 <= length path)%nat -> fit_spline tryfit maxerr tangent ctrl0 fuel path t1 t2 = Ok ps ->
  subseq (knots ps) path /\
  (exists ks, knots_at path ks ps /\ hd 0%nat ks = 0%nat /\ last ks 0%nat = (length path - 1)%nat).
Proof. exact fit_spline_knots. Qed.
Print Assumptions C20_knots_are_path_points.

(* ---------- the root finder in exact real arithmetic (Proofs/RootsReal.v) ---------- *)
From Coq Require Import Reals.
From Autog Require RootsReal.

Theorem C20_root_finder_exact : forall (coeff : list R) (x : R),
  ~ (RootsReal.co coeff 3 = 0 /\ RootsReal.co coeff 2 = 0 /\ RootsReal.co coeff 1 = 0 /\ RootsReal.co coeff 0 = 0)%R ->
  (In x (RootsReal.vals (RootsReal.solve3 coeff)) <-> RootsReal.poly3 coeff x = 0%R).
Proof. exact RootsReal.solve3_correct_total. Qed.
Print Assumptions C20_root_finder_exact.

(* the recorded finding in the exact model: on a repeated root the discriminant is exactly 0 and both roots are returned *)
Theorem C20_repeated_root_exact : RootsReal.solve3 [-2; -3; 0; 1]%R = Some [2; -1; -1]%R.
Proof. exact RootsReal.ex_double_values. Qed.
Print Assumptions C20_repeated_root_exact.

(* ---------- the fitter's containment test, curveIntersects / curveContained of spline_fit.go, IN EXACT REAL ARITHMETIC, statement by
   statement over the exact root finder above (Proofs/CurveReal*.v; tolerances epsilon1, epsilon2 as parameters). What the test decides,
   exactly: it accepts a piece iff every point where the piece meets a barrier it does not run along is "ignored" — at a parameter
   within epsilon2 of an end of the piece, or within sqrt(epsilon1) of an end point of the barrier. With both tolerances 0 this is
   "the piece meets no barrier", and for a rectangle that implies containment (intermediate value theorem). With the code's
   tolerances the ignored zones are exactly the recorded finding `vertex-crossing`; a barrier the piece runs ALONG is skipped for
   every tolerance (the zero polynomial: solve3 answers nil). An answer "not contained" always has a genuine witness. ---------- *)
From Coq Require Import Reals.
From Autog Require Import CurveReal CurveReal2 CurveReal3.
Local Open Scope R_scope.

Theorem C20_power_basis_is_the_curve : forall bz t,
  RootsReal.poly3 (xcoeff bz) t = px (curvep bz t) /\ RootsReal.poly3 (ycoeff bz) t = py (curvep bz t).
Proof. intros bz t. split; [apply xcoeff_correct | apply ycoeff_correct]. Qed.
Print Assumptions C20_power_basis_is_the_curve.

Theorem C20_intersections_exact : forall bz seg t, ~ curve_along bz seg ->
  (In t (curve_intersects bz seg) <-> 0 <= t <= 1 /\ on_seg (curvep bz t) seg).
Proof. exact curve_intersects_spec. Qed.
Print Assumptions C20_intersections_exact.

Theorem C20_containment_test_decides : forall eps1 eps2 bz bs,
  curve_contained eps1 eps2 bz bs = true <->
  forall b, In b bs -> ~ curve_along bz b ->
    forall t, 0 <= t <= 1 -> on_seg (curvep bz t) b -> ignored eps1 eps2 bz b t.
Proof. exact curve_contained_spec. Qed.
Print Assumptions C20_containment_test_decides.

Theorem C20_containment_test_exact : forall bz bs,
  curve_contained 0 0 bz bs = true <->
  forall b, In b bs -> ~ curve_along bz b -> forall t, 0 <= t <= 1 -> ~ on_seg (curvep bz t) b.
Proof. exact curve_contained_exact. Qed.
Print Assumptions C20_containment_test_exact.

Theorem C20_rejection_has_a_witness : forall eps1 eps2 bz bs, curve_contained eps1 eps2 bz bs = false ->
  exists b t, In b bs /\ 0 <= t <= 1 /\ on_seg (curvep bz t) b /\ ~ ignored eps1 eps2 bz b t.
Proof. exact curve_contained_false_witness. Qed.
Print Assumptions C20_rejection_has_a_witness.

(* exact tolerances, one rectangle: accepted and starting strictly inside => the whole piece strictly inside *)
Theorem C20_exact_test_implies_containment_in_a_rectangle : forall bz x0 y0 x1 y1, x0 < x1 -> y0 < y1 ->
  curve_contained 0 0 bz (rect_sides x0 y0 x1 y1) = true -> strictly_inside x0 y0 x1 y1 (curvep bz 0) ->
  forall t, 0 <= t <= 1 -> strictly_inside x0 y0 x1 y1 (curvep bz t).
Proof. exact rect_contained_exact_sound. Qed.
Print Assumptions C20_exact_test_implies_containment_in_a_rectangle.

(* any tolerances: a piece that starts strictly inside and is accepted can leave the rectangle only through an ignored zone *)
Theorem C20_accepted_piece_leaves_only_through_an_ignored_zone : forall eps1 eps2 bz x0 y0 x1 y1 t1, x0 < x1 -> y0 < y1 ->
  curve_contained eps1 eps2 bz (rect_sides x0 y0 x1 y1) = true -> strictly_inside x0 y0 x1 y1 (curvep bz 0) ->
  0 <= t1 <= 1 -> ~ strictly_inside x0 y0 x1 y1 (curvep bz t1) ->
  exists z b, 0 <= z <= t1 /\ In b (rect_sides x0 y0 x1 y1) /\ on_seg (curvep bz z) b /\ ignored eps1 eps2 bz b z.
Proof. exact rect_exit_is_ignored. Qed.
Print Assumptions C20_accepted_piece_leaves_only_through_an_ignored_zone.

(* the code's tolerances: the recorded finding `vertex-crossing`, exactly *)
Theorem C20_vertex_crossing_exactly : forall bz bs,
  curve_contained epsilon1 epsilon2 bz bs = true <->
  forall b, In b bs -> ~ curve_along bz b -> forall t, 0 <= t <= 1 -> on_seg (curvep bz t) b -> in_zone bz b t.
Proof. exact curve_contained_real_zones. Qed.
Print Assumptions C20_vertex_crossing_exactly.

(* witnesses: a transversal crossing 0.01 from a barrier's end is accepted with the code's tolerances; a piece lying on a barrier
   is accepted with every tolerance; a crossing at parameter 5e-8 is accepted wherever it is *)
Example C20_refuted_vertex_crossing : curve_contained epsilon1 epsilon2 hline [bseg] = true.
Proof. exact ex_vertex_accepted. Qed.
Example C20_refuted_along_a_barrier : forall eps1 eps2, curve_contained eps1 eps2 vline [vseg] = true.
Proof. exact ex_along_contained. Qed.
Example C20_refuted_crossing_at_the_start : curve_contained epsilon1 epsilon2 sline [bseg] = true.
Proof. exact ex_start_accepted. Qed.
