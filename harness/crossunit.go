//go:build verif

package main

import (
	"fmt"
	"os"
	"strings"

	"github.com/nulab/autog"
	"github.com/nulab/autog/graph"
)

// Unit correspondence of the crossing counter (internal/phase3/crossings.go) on SYNTHETIC proper layerings:
// layers far wider than anything the pipeline generators reach (the radix matrix, the accumulator tree and the
// layer filter have width-dependent arithmetic), any mix of widths, optional parallel edges.

type crossCase struct {
	Fn     string         `json:"fn"`
	Edges  [][]string     `json:"edges"`
	Layers map[string]int `json:"layers"`
	Widths []int          `json:"widths"`
	Impl   int            `json:"count_impl"`
	Naive  int            `json:"count_naive"`
	Panic  string         `json:"panic,omitempty"`
}

func genCrossCase(r *Rng) crossCase {
	nl := 2 + r.Intn(3)
	tall := r.Bool(30) // many narrow layers: the sum over layer pairs, whatever way it is organised
	if tall {
		nl = 14 + r.Intn(40)
	}
	widths := make([]int, nl)
	for i := range widths {
		if tall {
			widths[i] = 1 + r.Intn(4)
			continue
		}
		switch r.Intn(8) {
		case 0, 1, 2:
			widths[i] = 1 + r.Intn(8)
		case 3:
			widths[i] = 28 + r.Intn(10)
		case 4, 5:
			widths[i] = 62 + r.Intn(10)
		case 6:
			widths[i] = 126 + r.Intn(8)
		default:
			widths[i] = 1 + r.Intn(70)
		}
	}
	c := crossCase{Fn: "crossings", Layers: map[string]int{}, Widths: widths}
	name := func(l, i int) string { return fmt.Sprintf("n%d_%d", l, i) }
	seen := map[[2]string]bool{}
	multi := r.Bool(15)
	var es [][]string
	add := func(a, b string) {
		if seen[[2]string{a, b}] && !multi {
			return
		}
		seen[[2]string{a, b}] = true
		es = append(es, []string{a, b})
	}
	for l := 0; l+1 < nl; l++ {
		// every node of both layers gets at least one edge (a node without edges is not part of the input)
		for i := 0; i < widths[l]; i++ {
			add(name(l, i), name(l+1, r.Intn(widths[l+1])))
		}
		for j := 0; j < widths[l+1]; j++ {
			add(name(l, r.Intn(widths[l])), name(l+1, j))
		}
		for k := r.Intn(1 + (widths[l]+widths[l+1])/2); k > 0; k-- {
			add(name(l, r.Intn(widths[l])), name(l+1, r.Intn(widths[l+1])))
		}
	}
	for _, j := range r.Perm(len(es)) {
		c.Edges = append(c.Edges, es[j])
	}
	for l := 0; l < nl; l++ {
		for i := 0; i < widths[l]; i++ {
			c.Layers[name(l, i)] = l
		}
	}
	return c
}

// naive count over distinct (upper, lower) position pairs, layer pair by layer pair
func naiveCrossings(st autog.VerifSnap) int {
	type pp struct{ l, u, v int }
	seen := map[pp]bool{}
	var ps []pp
	for _, e := range st.Edges {
		f, t := st.Nodes[e.From], st.Nodes[e.To]
		p := pp{f.Layer, f.LayerPos, t.LayerPos}
		if !seen[p] {
			seen[p] = true
			ps = append(ps, p)
		}
	}
	n := 0
	for a := 0; a < len(ps); a++ {
		for b := a + 1; b < len(ps); b++ {
			if ps[a].l == ps[b].l && (ps[a].u-ps[b].u)*(ps[a].v-ps[b].v) < 0 {
				n++
			}
		}
	}
	return n
}

func runCrossUnit(seed uint64, n int, outDir string) int {
	r := NewRng(seed)
	os.MkdirAll(outDir, 0o755)
	var cases []crossCase
	var shard strings.Builder
	nshard, inShard := 0, 0
	flush := func() {
		if inShard == 0 {
			return
		}
		src := "From Autog Require Import Check.\nDefinition q (n : Z) (d : positive) : Q := Qmake n d.\nDefinition xunits : list (nat * (graph * Z)) := [\n" +
			shard.String() + "].\nDefinition U := Eval vm_compute in cross_failing xunits.\nPrint U.\n"
		os.WriteFile(fmt.Sprintf("%s/unit_%03d.v", outDir, nshard), []byte(src), 0o644)
		nshard++
		inShard = 0
		shard.Reset()
	}
	for i := 0; i < n; i++ {
		c := genCrossCase(r)
		var st autog.VerifSnap
		func() {
			defer func() {
				if rec := recover(); rec != nil {
					c.Panic = fmt.Sprint(rec)
				}
			}()
			st, c.Impl = autog.VerifCrossings(graph.EdgeSlice(c.Edges), c.Layers)
		}()
		if c.Panic != "" {
			cases = append(cases, c)
			continue
		}
		c.Naive = naiveCrossings(st)
		cases = append(cases, c)
		if inShard > 0 {
			shard.WriteString(";\n")
		}
		fmt.Fprintf(&shard, " (%d%%nat, (%s, %s))", i, graphLit(st), zlit(c.Impl))
		inShard++
		if inShard >= 6 {
			flush()
		}
	}
	flush()
	writeJSON(outDir+"/units.json", cases)
	fmt.Printf("unit crossings: %d cases into %d shards\n", len(cases), nshard)
	return 0
}
