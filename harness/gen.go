package main

import (
	"fmt"
	"os"
	"sort"
)

// ---------- PRNG: splitmix64, every random choice derives from one state ----------

type Rng struct{ s uint64 }

func NewRng(seed uint64) *Rng { return &Rng{s: seed*0x9E3779B97F4A7C15 + 0x1234567} }

func (r *Rng) Next() uint64 {
	r.s += 0x9E3779B97F4A7C15
	z := r.s
	z = (z ^ (z >> 30)) * 0xBF58476D1CE4E5B9
	z = (z ^ (z >> 27)) * 0x94D049BB133111EB
	return z ^ (z >> 31)
}
func (r *Rng) Intn(n int) int {
	if n <= 0 {
		return 0
	}
	return int(r.Next() % uint64(n))
}
func (r *Rng) Bool(pct int) bool { return r.Intn(100) < pct }
func (r *Rng) Pick(xs []string) string {
	return xs[r.Intn(len(xs))]
}
func (r *Rng) Perm(n int) []int {
	p := make([]int, n)
	for i := range p {
		p[i] = i
	}
	for i := n - 1; i > 0; i-- {
		j := r.Intn(i + 1)
		p[i], p[j] = p[j], p[i]
	}
	return p
}

// ---------- cases ----------

type Case struct {
	Name         string                `json:"name"`
	Edges        [][]string            `json:"edges"`
	P1           string                `json:"p1"`           // greedy | greedyrnd | dfs
	P2           string                `json:"p2"`           // ns | lp
	P4           string                `json:"p4"`           // sink | valign | packright | ns | bk | bk0..bk3
	P3           string                `json:"p3,omitempty"` // "" (weighted median) | noop
	P5           string                `json:"p5"`           // polyline | straight | ortho | splines | noop
	SizeMode     string                `json:"size_mode"`    // none | fixed | map | fixedmap
	FixedW       float64               `json:"fixed_w"`
	FixedH       float64               `json:"fixed_h"`
	Sizes        map[string][2]float64 `json:"sizes,omitempty"`
	NodeSpacing  float64               `json:"node_spacing"`
	LayerSpacing float64               `json:"layer_spacing"`
	VirtualOut   bool                  `json:"virtual_out"`
	Thoroughness int                   `json:"thoroughness"` // 0 = default
	Kind         string                `json:"kind"`
}

func (c Case) Key() string {
	return fmt.Sprintf("%v|%s|%s|%s|%s|%s|%v|%v|%v|%v|%v|%v|%d", c.Edges, c.P1, c.P2+c.P3, c.P4, c.P5, c.SizeMode, c.FixedW, c.FixedH, sortedSizes(c.Sizes), c.NodeSpacing, c.LayerSpacing, c.VirtualOut, c.Thoroughness)
}

func sortedSizes(m map[string][2]float64) string {
	ks := make([]string, 0, len(m))
	for k := range m {
		ks = append(ks, k)
	}
	sort.Strings(ks)
	s := ""
	for _, k := range ks {
		s += fmt.Sprintf("%q:%v;", k, m[k])
	}
	return s
}

func (c Case) NodeIDs() []string {
	seen := map[string]bool{}
	var ids []string
	for _, e := range c.Edges {
		for _, id := range e {
			if !seen[id] {
				seen[id] = true
				ids = append(ids, id)
			}
		}
	}
	return ids
}

// configured size of a node according to the option semantics stated in C02
func (c Case) ConfiguredSize(id string) (w, h float64) {
	switch c.SizeMode {
	case "fixed":
		return c.FixedW, c.FixedH
	case "map":
		if s, ok := c.Sizes[id]; ok {
			return s[0], s[1]
		}
		return 0, 0
	case "fixedmap":
		if s, ok := c.Sizes[id]; ok {
			return s[0], s[1]
		}
		return c.FixedW, c.FixedH
	}
	return 0, 0
}

// ---------- graph generators ----------

func nid(i int) string { return fmt.Sprintf("n%d", i) }

type edgeI [2]int

// genGraph returns an edge list over node indices 0..n-1; every node appears in at least one edge.
func genGraph(r *Rng, kind string, n int) ([]edgeI, int) {
	var es []edgeI
	switch kind {
	case "outtree", "intree":
		for i := 1; i < n; i++ {
			p := r.Intn(i)
			if kind == "outtree" {
				es = append(es, edgeI{p, i})
			} else {
				es = append(es, edgeI{i, p})
			}
		}
	case "dag":
		// connected dag: spanning tree with forward edges plus extra forward edges
		for i := 1; i < n; i++ {
			es = append(es, edgeI{r.Intn(i), i})
		}
		extra := r.Intn(n + 1)
		for k := 0; k < extra; k++ {
			a, b := r.Intn(n), r.Intn(n)
			if a == b {
				continue
			}
			if a > b {
				a, b = b, a
			}
			es = append(es, edgeI{a, b})
		}
	case "slack":
		// a backbone path that fixes the number of layers, side chains with fewer nodes than the span they
		// bridge (so the layering leaves long edges and nodes with in-degree = out-degree that balancing may
		// move), chains that end in shared sinks, and filler leaves that crowd some layers. The edge list is
		// shuffled. The node count is chosen here.
		bl := 4 + r.Intn(4)
		n = bl
		for i := 1; i < bl; i++ {
			es = append(es, edgeI{i - 1, i})
		}
		chains := 1 + r.Intn(3)
		for c := 0; c < chains; c++ {
			from := r.Intn(bl - 2)
			to := from + 2 + r.Intn(bl-from-2)
			if to >= bl {
				to = bl - 1
			}
			k := 1 + r.Intn(to-from) // inner nodes of the side chain, at most span
			if k > to-from-1 && r.Bool(70) {
				k = to - from - 1
			}
			if k < 1 {
				k = 1
			}
			prev := from
			for j := 0; j < k; j++ {
				es = append(es, edgeI{prev, n})
				prev = n
				n++
			}
			switch r.Intn(3) {
			case 0:
				es = append(es, edgeI{prev, to})
			case 1: // fan out to two backbone nodes
				es = append(es, edgeI{prev, to})
				if to+1 < bl {
					es = append(es, edgeI{prev, to + 1})
				}
			default: // own sinks
				es = append(es, edgeI{prev, n})
				n++
				if r.Bool(50) {
					es = append(es, edgeI{prev, n})
					n++
				}
			}
		}
		fill := r.Intn(4)
		for f := 0; f < fill; f++ {
			es = append(es, edgeI{r.Intn(n), n})
			n++
		}
		perm := r.Perm(len(es))
		sh := make([]edgeI, len(es))
		for i, j := range perm {
			sh[i] = es[j]
		}
		es = sh
	case "longdag":
		// chain plus skip edges (long edges)
		for i := 1; i < n; i++ {
			es = append(es, edgeI{i - 1, i})
		}
		extra := 1 + r.Intn(n)
		for k := 0; k < extra; k++ {
			a := r.Intn(n)
			b := a + 2 + r.Intn(n)
			if b >= n {
				b = n - 1
			}
			if b > a {
				es = append(es, edgeI{a, b})
			}
		}
	case "cyclic":
		for i := 1; i < n; i++ {
			p := r.Intn(i)
			if r.Bool(50) {
				es = append(es, edgeI{p, i})
			} else {
				es = append(es, edgeI{i, p})
			}
		}
		extra := 1 + r.Intn(n+2)
		for k := 0; k < extra; k++ {
			a, b := r.Intn(n), r.Intn(n)
			if a != b {
				es = append(es, edgeI{a, b})
			}
		}
	case "multi":
		// parallel and antiparallel edges
		for i := 1; i < n; i++ {
			p := r.Intn(i)
			es = append(es, edgeI{p, i})
		}
		m := len(es)
		extra := 1 + r.Intn(n+1)
		for k := 0; k < extra; k++ {
			e := es[r.Intn(m)]
			if r.Bool(50) {
				es = append(es, e)
			} else {
				es = append(es, edgeI{e[1], e[0]})
			}
		}
		if r.Bool(50) {
			a, b := r.Intn(n), r.Intn(n)
			if a != b {
				es = append(es, edgeI{a, b})
			}
		}
	case "multidag":
		// acyclic with parallel edges only
		for i := 1; i < n; i++ {
			p := r.Intn(i)
			es = append(es, edgeI{p, i})
		}
		m := len(es)
		extra := 1 + r.Intn(n+1)
		for k := 0; k < extra; k++ {
			es = append(es, es[r.Intn(m)])
		}
		for k := 0; k < r.Intn(3); k++ {
			a, b := r.Intn(n), r.Intn(n)
			if a < b {
				es = append(es, edgeI{a, b})
			}
		}
	case "dense":
		for i := 1; i < n; i++ {
			es = append(es, edgeI{r.Intn(i), i})
		}
		for a := 0; a < n; a++ {
			for b := 0; b < n; b++ {
				if a != b && r.Bool(30) {
					es = append(es, edgeI{a, b})
				}
			}
		}
	case "cycle":
		for i := 0; i < n; i++ {
			es = append(es, edgeI{i, (i + 1) % n})
		}
		for k := 0; k < r.Intn(3); k++ {
			a, b := r.Intn(n), r.Intn(n)
			if a != b {
				es = append(es, edgeI{a, b})
			}
		}
	case "layered":
		// bipartite-ish layered dag with many crossings
		L := 2 + r.Intn(3)
		per := (n + L - 1) / L
		lay := func(i int) int { return i / per }
		for i := per; i < n; i++ {
			// parent in previous layer
			lo := (lay(i) - 1) * per
			es = append(es, edgeI{lo + r.Intn(per), i})
		}
		for k := 0; k < n; k++ {
			a, b := r.Intn(n), r.Intn(n)
			if lay(a) < lay(b) {
				es = append(es, edgeI{a, b})
			}
		}
	case "talltree", "tallintree":
		// a rooted tree with many layers: a spine, and small bushes branching off anywhere along it (also deep down)
		depth := 12 + r.Intn(30)
		var t []edgeI
		for i := 1; i < depth; i++ {
			t = append(t, edgeI{i - 1, i})
		}
		n = depth
		for b := 2 + r.Intn(5); b > 0; b-- {
			at := r.Intn(depth - 1)
			if r.Bool(60) {
				at = depth/2 + r.Intn(depth-depth/2-1)
			}
			// a bush of 1-5 nodes below spine node `at`
			first := n
			for k := 1 + r.Intn(5); k > 0; k-- {
				p := at
				if n > first && r.Bool(60) {
					p = first + r.Intn(n-first)
				}
				t = append(t, edgeI{p, n})
				n++
			}
		}
		for _, j := range r.Perm(len(t)) {
			if kind == "talltree" {
				es = append(es, t[j])
			} else {
				es = append(es, edgeI{t[j][1], t[j][0]})
			}
		}
	case "deep":
		// more than 64 layers: a long chain with two-layer gadgets hanging off deep nodes
		depth := 66 + r.Intn(25)
		for i := 1; i < depth; i++ {
			es = append(es, edgeI{i - 1, i})
		}
		n = depth
		gadgets := 2 + r.Intn(4)
		for g := 0; g < gadgets; g++ {
			at := r.Intn(depth - 3)
			if r.Bool(70) {
				at = 60 + r.Intn(depth-63)
			}
			// a, b below chain node `at`; c, d below a and b, cross-connected
			a, b, c, d := n, n+1, n+2, n+3
			n += 4
			es = append(es, edgeI{at, a}, edgeI{at, b})
			for _, p := range [][2]int{{a, c}, {a, d}, {b, c}, {b, d}} {
				if r.Bool(75) {
					es = append(es, edgeI{p[0], p[1]})
				}
			}
			es = append(es, edgeI{a, c})
			if r.Bool(50) {
				es = append(es, edgeI{at + 1, d})
			}
		}
	default:
		panic("unknown graph kind " + kind)
	}
	// random edge order
	if r.Bool(70) {
		p := r.Perm(len(es))
		out := make([]edgeI, len(es))
		for i, j := range p {
			out[i] = es[j]
		}
		es = out
	}
	return es, n
}

var connectedKinds = []string{"outtree", "intree", "dag", "longdag", "cyclic", "multi", "multidag", "dense", "cycle", "layered", "slack", "slack"}

// makes the edge list a simple graph: no parallel or antiparallel edges, no self loops
func simplify(es []edgeI) []edgeI {
	seen := map[edgeI]bool{}
	var out []edgeI
	for _, e := range es {
		if e[0] == e[1] || seen[e] || seen[edgeI{e[1], e[0]}] {
			continue
		}
		seen[e] = true
		out = append(out, e)
	}
	return out
}

func toStrings(es []edgeI, name func(int) string) [][]string {
	out := make([][]string, len(es))
	for i, e := range es {
		out[i] = []string{name(e[0]), name(e[1])}
	}
	return out
}

type GenOpts struct {
	MaxN        int
	Kinds       []string
	SelfLoops   bool
	MultiComp   bool
	P1          []string
	P2          []string
	P4          []string
	P5          []string
	P3Noop      int // per cent of the cases laid out with OrderingNoop
	Decimal     int // per cent of the cases whose sizes and spacings are multiples of 0.1 (not dyadic: float rounding)
	AdvIDs      int // per cent of the cases whose node names come from the adversarial pools (C08: names are opaque)
	SizeModes   []string
	VirtualOut  []bool
	SpacingsPos bool // strictly positive spacings
	LayerPos    bool // strictly positive layer spacing only
	IntSizes    bool
	Simple      bool
}

var allP1 = []string{"greedy", "dfs"}
var allP2 = []string{"ns", "lp"}
var sizeAwareP4 = []string{"sink", "valign", "packright", "ns"}
var basicP5 = []string{"polyline", "straight", "ortho"}

// grain of the generated sizes and spacings: multiples of 8 by default; a quarter of the cases use multiples of
// 1/4, so that nearly-but-not-exactly equal coordinates occur (every value stays a dyadic rational far below
// 2^53, so the halvings and sums in the code stay exact in binary floating point)
var grain = 8.0

func dyadic(r *Rng, max int) float64 {
	return grain * float64(r.Intn(max+1))
}

// growN > 1: the escalated search that bin/check runs only after a proof obligation or the correspondence broke and
// the everyday search found no failing input (environment variable VH_GROW)
var growN = func() int {
	g := 1
	if v := os.Getenv("VH_GROW"); v != "" {
		fmt.Sscan(v, &g)
	}
	return g
}()

func genCase(r *Rng, o GenOpts) Case {
	c := Case{}
	grain = 8.0
	if r.Bool(25) {
		grain = 0.25
	}
	if o.Decimal > 0 && r.Bool(o.Decimal) {
		grain = 0.1 // sums of such sizes are rounded: only for oracles that do not compare with exact arithmetic
	}
	defer func() { grain = 8.0 }()
	kind := o.Kinds[r.Intn(len(o.Kinds))]
	if growN > 1 {
		o.MaxN = o.MaxN*growN + 4 // escalated search (VH_GROW): larger inputs than the everyday distribution
	}
	n := 2 + r.Intn(o.MaxN-1)
	es, n := genGraph(r, kind, n)
	if o.Simple {
		es = simplify(es)
	}
	names := make([]string, n)
	for i := range names {
		names[i] = nid(i)
	}
	off := n
	if o.MultiComp && r.Bool(35) {
		// add further components, interleaved
		k := 1 + r.Intn(2)
		var all [][]edgeI
		all = append(all, es)
		for j := 0; j < k; j++ {
			n2 := 1 + r.Intn(o.MaxN/2+1)
			var es2 []edgeI
			if n2 == 1 {
				es2 = []edgeI{{off, off}} // single self-looped node
			} else {
				es2, n2 = genGraph(r, o.Kinds[r.Intn(len(o.Kinds))], n2)
				if o.Simple {
					es2 = simplify(es2)
				}
				for i := range es2 {
					es2[i][0] += off
					es2[i][1] += off
				}
			}
			for i := 0; i < n2; i++ {
				names = append(names, nid(off+i))
			}
			off += n2
			all = append(all, es2)
		}
		es = interleave(r, all)
		kind += "+comps"
	}
	if o.SelfLoops && r.Bool(25) {
		k := 1 + r.Intn(3)
		for j := 0; j < k; j++ {
			v := r.Intn(off)
			pos := r.Intn(len(es) + 1)
			ins := []edgeI{{v, v}}
			if r.Bool(30) {
				// two self-loops in a row (the same node twice, or two nodes): a removal loop that skips the element after a removed one
				w := v
				if r.Bool(50) {
					w = r.Intn(off)
				}
				ins = append(ins, edgeI{w, w})
			}
			es = append(es[:pos], append(ins, es[pos:]...)...)
		}
		kind += "+loops"
	}
	c.Kind = kind
	c.Edges = toStrings(es, func(i int) string { return names[i] })
	c.P1 = o.P1[r.Intn(len(o.P1))]
	c.P2 = o.P2[r.Intn(len(o.P2))]
	c.P4 = o.P4[r.Intn(len(o.P4))]
	c.P5 = o.P5[r.Intn(len(o.P5))]
	// a small pivot budget for network simplex (layerer and positioner): the budget-exhausted exits are only reached
	// with low thoroughness
	if r.Bool(22) {
		c.Thoroughness = 1 + r.Intn(2)
	}
	// OrderingNoop: phase 3 keeps the order of the layering (it still breaks long edges and numbers positions)
	if o.P3Noop > 0 && r.Bool(o.P3Noop) {
		c.P3 = "noop"
	}
	if c.P4 == "ns" && len(c.Edges) > 36 {
		// the NetworkSimplex positioner is known to need tens of seconds from about 90 edges (known finding of
		// C01, class ns-positioner-slow): keep it to moderate sizes here
		c.P4 = "sink"
	}
	c.SizeMode = o.SizeModes[r.Intn(len(o.SizeModes))]
	c.VirtualOut = o.VirtualOut[r.Intn(len(o.VirtualOut))]
	if o.SpacingsPos {
		c.NodeSpacing = grain + dyadic(r, 8)
		c.LayerSpacing = 2*grain + dyadic(r, 10)
	} else {
		c.NodeSpacing = dyadic(r, 8)
		c.LayerSpacing = dyadic(r, 10)
		if o.LayerPos {
			c.LayerSpacing += grain
		}
	}
	switch c.SizeMode {
	case "fixed", "fixedmap":
		c.FixedW, c.FixedH = dyadic(r, 12), dyadic(r, 8)
	}
	if c.SizeMode == "map" || c.SizeMode == "fixedmap" {
		c.Sizes = map[string][2]float64{}
		cover := r.Intn(3) // 0: all, 1: some, 2: few
		for _, id := range c.NodeIDs() {
			if cover == 0 || (cover == 1 && r.Bool(60)) || (cover == 2 && r.Bool(15)) {
				c.Sizes[id] = [2]float64{dyadic(r, 12), dyadic(r, 8)}
			}
		}
	}
	// names are opaque (C08): now and then take them from the adversarial pools. Not with helper nodes in the output:
	// their names "V<k>" may then coincide with input names, and the oracles tell nodes apart by name
	if o.AdvIDs > 0 && !c.VirtualOut && r.Bool(o.AdvIDs) {
		c = renameCase(c, adversarialRenaming(c, r))
		c.Kind += "+names"
	}
	return c
}

func interleave(r *Rng, parts [][]edgeI) []edgeI {
	idx := make([]int, len(parts))
	var out []edgeI
	for {
		var live []int
		for i := range parts {
			if idx[i] < len(parts[i]) {
				live = append(live, i)
			}
		}
		if len(live) == 0 {
			return out
		}
		i := live[r.Intn(len(live))]
		out = append(out, parts[i][idx[i]])
		idx[i]++
	}
}
