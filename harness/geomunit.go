//go:build verif

package main

import (
	"flag"
	"fmt"
	"math"
	"os"
	"sort"
	"strings"
	"time"

	"github.com/nulab/autog"
)

// Corridors for geom.Shortest / FitSpline: vertically stacked rectangles, consecutive ones share a boundary
// segment of positive length. class "inside": the start lies strictly inside the top edge of the first
// rectangle and the end strictly inside the bottom edge of the last (the class outside which the router is a
// recorded finding); class "any": start anywhere in the first, end anywhere in the last rectangle.

type corridor struct {
	Class   string            `json:"class"`
	Rects   []autog.VerifRect `json:"rects"`
	Start   [2]float64        `json:"start"`
	End     [2]float64        `json:"end"`
	Outcome int               `json:"outcome"` // 0 returned, 1 panic, 2 watchdog
	Path    [][2]float64      `json:"path,omitempty"`
	Panic   string            `json:"panic,omitempty"`
	Checks  map[string]string `json:"checks,omitempty"`
}

func genCorridor(r *Rng, class string) corridor {
	n := 1 + r.Intn(6)
	c := corridor{Class: class}
	if class == "stairs" {
		return genStairCorridor(r)
	}
	y := float64(8 * r.Intn(4))
	lo, hi := float64(8*r.Intn(10)), 0.0
	hi = lo + float64(8*(2+r.Intn(12)))
	for i := 0; i < n; i++ {
		h := float64(8 * (1 + r.Intn(6)))
		c.Rects = append(c.Rects, autog.VerifRect{TLX: lo, TLY: y, BRX: hi, BRY: y + h})
		y += h
		// next rectangle overlaps [lo, hi] in a segment of positive length
		nlo := lo + float64(8*(r.Intn(9)-4))
		nhi := hi + float64(8*(r.Intn(9)-4))
		if nlo < 0 {
			nlo = 0
		}
		if nhi <= nlo+8 {
			nhi = nlo + 16
		}
		if nlo >= hi {
			nlo = hi - 8
		}
		if nhi <= lo {
			nhi = lo + 8
		}
		if nhi <= nlo {
			nhi = nlo + 8
		}
		lo, hi = nlo, nhi
	}
	f, l := c.Rects[0], c.Rects[n-1]
	pick := func(a, b float64, strict bool) float64 {
		k := int((b - a) / 4) // quarter steps of the 8-grid, so interior points exist
		if strict {
			if k < 2 {
				return (a + b) / 2
			}
			return a + 4*float64(1+r.Intn(k-1))
		}
		return a + 4*float64(r.Intn(k+1))
	}
	if class == "inside" {
		c.Start = [2]float64{pick(f.TLX, f.BRX, true), f.TLY}
		c.End = [2]float64{pick(l.TLX, l.BRX, true), l.BRY}
		if r.Bool(30) {
			translateCorridor(&c, r)
		}
	} else if class == "interior" {
		// strictly inside the first / last rectangle, off the 8-grid (odd multiples of 1/8 and 1/16): in general position with
		// respect to the corridor's vertices, and every cross product stays exact in float64
		off := func(a, b float64, den int) float64 {
			k := int(b-a) * den / 2
			return a + float64(2*r.Intn(k)+1)/float64(den)
		}
		c.Start = [2]float64{off(f.TLX, f.BRX, 8), off(f.TLY, f.BRY, 16)}
		c.End = [2]float64{off(l.TLX, l.BRX, 8), off(l.TLY, l.BRY, 16)}
		if r.Bool(40) {
			c.Start[1] = f.TLY // one end on its edge, as the spline router calls it
		} else if r.Bool(40) {
			c.End[1] = l.BRY
		}
	} else {
		c.Start = [2]float64{pick(f.TLX, f.BRX, false), pick(f.TLY, f.BRY, false)}
		c.End = [2]float64{pick(l.TLX, l.BRX, false), pick(l.TLY, l.BRY, false)}
	}
	return c
}

// long corridors (7-18 rectangles) whose walls move steadily to one side, so that many wall corners bulge into the
// corridor and the funnel holds long chains: staircases with shrinking or growing steps, with the occasional step
// back; start strictly inside the top edge of the first, end strictly inside the bottom edge of the last rectangle
func genStairCorridor(r *Rng) corridor {
	n := 7 + r.Intn(12)
	c := corridor{Class: "stairs"}
	y := 0.0
	lo := float64(8 * (20 + r.Intn(20)))
	w := float64(8 * (4 + r.Intn(10)))
	dir := 1.0
	if r.Bool(50) {
		dir = -1
	}
	step := float64(8 * (2 + r.Intn(6)))
	for i := 0; i < n; i++ {
		h := float64(8 * (1 + r.Intn(3)))
		c.Rects = append(c.Rects, autog.VerifRect{TLX: lo, TLY: y, BRX: lo + w, BRY: y + h})
		y += h
		d := step
		switch r.Intn(4) {
		case 0:
			step = max(8, step-8) // shrinking steps: a convex wall
		case 1:
			step += 8
		}
		if r.Bool(12) {
			d = -8
		}
		nlo := lo + dir*d
		nw := w + float64(8*(r.Intn(5)-2))
		if nw < 16 {
			nw = 16
		}
		// keep an overlap of positive length with [lo, lo+w]
		if nlo >= lo+w-8 {
			nlo = lo + w - 8
		}
		if nlo+nw <= lo+8 {
			nlo = lo + 8 - nw
		}
		if nlo < 0 {
			nlo = 0
		}
		lo, w = nlo, nw
	}
	f, l := c.Rects[0], c.Rects[n-1]
	c.Start = [2]float64{f.TLX + 4*float64(1+r.Intn(int((f.BRX-f.TLX)/4)-1)), f.TLY}
	c.End = [2]float64{l.TLX + 4*float64(1+r.Intn(int((l.BRX-l.TLX)/4)-1)), l.BRY}
	return c
}

// translateCorridor moves the corridor so that one of its vertices lands exactly on the origin (coordinates become
// negative on one side): zero values of points are a natural sentinel, and nothing says a corridor is in the
// positive quadrant
func translateCorridor(c *corridor, r *Rng) {
	k := r.Intn(len(c.Rects))
	dx, dy := c.Rects[k].TLX, c.Rects[k].BRY
	if r.Bool(50) {
		dx = c.Rects[k].BRX
	}
	if r.Bool(50) {
		dy = c.Rects[k].TLY
	}
	for i := range c.Rects {
		c.Rects[i].TLX -= dx
		c.Rects[i].BRX -= dx
		c.Rects[i].TLY -= dy
		c.Rects[i].BRY -= dy
	}
	c.Start[0] -= dx
	c.Start[1] -= dy
	c.End[0] -= dx
	c.End[1] -= dy
}

func runShortest(c *corridor) {
	done := make(chan struct{}, 1)
	go func() {
		defer func() {
			if rec := recover(); rec != nil {
				c.Outcome, c.Panic = 1, fmt.Sprint(rec)
			}
			done <- struct{}{}
		}()
		c.Path = autog.VerifShortest(c.Start, c.End, c.Rects)
	}()
	select {
	case <-done:
	case <-time.After(2 * time.Second):
		if c.Class != "any" {
			// inside the router's class a call that is still running after 2 s is far more likely a busy machine than
			// a loop: give it another half minute before calling it one
			select {
			case <-done:
				return
			case <-time.After(30 * time.Second):
			}
		}
		c.Outcome = 2
	}
}

func inCorridor(rs []autog.VerifRect, x, y float64) bool {
	for _, r := range rs {
		if x >= r.TLX-1e-9 && x <= r.BRX+1e-9 && y >= r.TLY-1e-9 && y <= r.BRY+1e-9 {
			return true
		}
	}
	return false
}

// segInside decides EXACTLY (up to 1e-9) whether the segment a-b lies in the union of the rectangles, which are
// stacked bands: inside a band the segment is a straight piece, so it is enough to look at the two points where it
// enters and leaves the band; a horizontal segment must be covered by the x-ranges of the bands that contain its y.
// (Dense sampling is not good enough here: a segment that cuts a corner between two samples makes the reference
// path shorter than any path inside the corridor.)
func segInside(rs []autog.VerifRect, a, b [2]float64) bool {
	const eps = 1e-9
	if math.Abs(a[1]-b[1]) <= eps {
		lo, hi := math.Min(a[0], b[0]), math.Max(a[0], b[0])
		// union of the x-ranges of the bands containing this ordinate, swept left to right
		type iv struct{ l, h float64 }
		var ivs []iv
		for _, r := range rs {
			if a[1] >= r.TLY-eps && a[1] <= r.BRY+eps {
				ivs = append(ivs, iv{r.TLX, r.BRX})
			}
		}
		sort.Slice(ivs, func(i, j int) bool { return ivs[i].l < ivs[j].l })
		at := lo
		for _, v := range ivs {
			if v.l <= at+eps && v.h > at {
				at = v.h
			}
		}
		return len(ivs) > 0 && at >= hi-eps
	}
	ylo, yhi := math.Min(a[1], b[1]), math.Max(a[1], b[1])
	xAt := func(y float64) float64 { return a[0] + (y-a[1])/(b[1]-a[1])*(b[0]-a[0]) }
	covered := ylo
	// bands in order of their top
	bands := append([]autog.VerifRect(nil), rs...)
	sort.Slice(bands, func(i, j int) bool { return bands[i].TLY < bands[j].TLY })
	for _, r := range bands {
		y0, y1 := math.Max(ylo, r.TLY), math.Min(yhi, r.BRY)
		if y1 < y0-eps {
			continue
		}
		if y1-y0 <= eps {
			continue // touches the band in one point only: that point also belongs to the neighbouring band or is an end point
		}
		for _, y := range []float64{y0, y1} {
			if x := xAt(y); x < r.TLX-eps || x > r.BRX+eps {
				return false
			}
		}
		if y0 <= covered+eps && y1 > covered {
			covered = y1
		}
	}
	return covered >= yhi-eps
}

// reference shortest path length: Dijkstra over the visibility graph of start, end and all rectangle corners,
// visibility decided exactly (a test oracle, deliberately independent of the funnel algorithm)
func refShortest(c corridor) float64 {
	pts := [][2]float64{c.Start, c.End}
	for _, r := range c.Rects {
		pts = append(pts, [2]float64{r.TLX, r.TLY}, [2]float64{r.BRX, r.TLY}, [2]float64{r.TLX, r.BRY}, [2]float64{r.BRX, r.BRY})
	}
	vis := func(a, b [2]float64) bool { return segInside(c.Rects, a, b) }
	n := len(pts)
	dist := make([]float64, n)
	doneN := make([]bool, n)
	for i := range dist {
		dist[i] = math.Inf(1)
	}
	dist[0] = 0
	for {
		u := -1
		for i := 0; i < n; i++ {
			if !doneN[i] && (u < 0 || dist[i] < dist[u]) {
				u = i
			}
		}
		if u < 0 || math.IsInf(dist[u], 1) {
			break
		}
		doneN[u] = true
		for v := 0; v < n; v++ {
			if !doneN[v] && vis(pts[u], pts[v]) {
				d := dist[u] + math.Hypot(pts[u][0]-pts[v][0], pts[u][1]-pts[v][1])
				if d < dist[v] {
					dist[v] = d
				}
			}
		}
	}
	return dist[1]
}

// the property itself, on the implementation's answer
func checkC19(c corridor) []string {
	var v []string
	if c.Outcome == 1 {
		return []string{"Shortest panicked: " + c.Panic}
	}
	if c.Outcome == 2 {
		return []string{"Shortest did not return within 2 s"}
	}
	p := c.Path
	if len(p) < 2 || p[0] != c.End || p[len(p)-1] != c.Start {
		return []string{fmt.Sprintf("path %v does not run from the end point to the start point", p)}
	}
	length := 0.0
	for i := 1; i < len(p); i++ {
		length += math.Hypot(p[i][0]-p[i-1][0], p[i][1]-p[i-1][1])
		if !segInside(c.Rects, p[i-1], p[i]) {
			v = append(v, fmt.Sprintf("segment %v -> %v leaves the corridor", p[i-1], p[i]))
		}
	}
	if ref := refShortest(c); math.Abs(length-ref) > 1e-6*math.Max(1, ref) {
		v = append(v, fmt.Sprintf("path length %.6f, the shortest path inside the corridor has length %.6f", length, ref))
	}
	return v
}

func rectLit(r autog.VerifRect) string {
	return fmt.Sprintf("mkRect (%s,%s) (%s,%s)", qlit(r.TLX), qlit(r.TLY), qlit(r.BRX), qlit(r.BRY))
}

func runGeom(fs *flag.FlagSet, prop string, seed uint64, n int, outDir, file string) int {
	r := NewRng(seed)
	os.MkdirAll(outDir, 0o755)
	var cases []corridor
	var shard strings.Builder
	nshard, inShard := 0, 0
	flush := func() {
		if inShard == 0 {
			return
		}
		src := "From Autog Require Import GeomCheck.\nDefinition q (n : Z) (d : positive) : Q := Qmake n d.\nDefinition gcases : list (nat * geom_case) := [\n" +
			shard.String() + "].\nDefinition G := Eval vm_compute in geom_failing gcases.\nPrint G.\n"
		if prop != "stairs" { // the kernel-evaluated containment certificate is too slow on corridors of 7-18 rectangles
			src += "Definition H := Eval vm_compute in geom_cert_failing gcases.\nPrint H.\n"
		}
		os.WriteFile(fmt.Sprintf("%s/geom_%03d.v", outDir, nshard), []byte(src), 0o644)
		nshard++
		inShard = 0
		shard.Reset()
	}
	hangs := 0
	for i := 0; i < n; i++ {
		class := "inside"
		if prop == "any" || (prop == "mixed" && r.Bool(30)) {
			class = "any"
		}
		if prop == "stairs" {
			class = "stairs"
		}
		if prop == "interior" {
			class = "interior"
		}
		c := genCorridor(r, class)
		if hangs < 6 {
			runShortest(&c)
		} else {
			c.Outcome = 2 // too many stuck goroutines already: do not start more
			c.Panic = "skipped"
		}
		if c.Outcome == 2 && c.Panic == "" {
			hangs++
		}
		c.Checks = map[string]string{}
		if c.Panic == "skipped" {
			cases = append(cases, c)
			continue
		}
		if msgs := checkC19(c); len(msgs) > 0 {
			c.Checks["C19"] = strings.Join(msgs, "; ")
		}
		cases = append(cases, c)
		rs := make([]string, len(c.Rects))
		for j, rc := range c.Rects {
			rs[j] = rectLit(rc)
		}
		if inShard > 0 {
			shard.WriteString(";\n")
		}
		fmt.Fprintf(&shard, " (%d%%nat, ((%s,%s), (%s,%s), [%s], %d%%nat, %s))", i, qlit(c.Start[0]), qlit(c.Start[1]), qlit(c.End[0]), qlit(c.End[1]),
			strings.Join(rs, ";"), c.Outcome, ptsLit(c.Path))
		inShard++
		if inShard >= 100 || (prop == "stairs" && inShard >= 12) {
			flush()
		}
	}
	flush()
	writeJSON(outDir+"/corridors.json", cases)
	fmt.Printf("geom: %d corridors into %d shards (%d watchdog)\n", len(cases), nshard, hangs)
	return 0
}

func init() {
	extraCommands["geom"] = runGeom
}
