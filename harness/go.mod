module verifharness

go 1.23.1

require github.com/nulab/autog v0.0.0

replace github.com/nulab/autog => /repo
