package main

import (
	"encoding/json"
	"flag"
	"fmt"
	"os"
	"os/exec"
	"runtime"
	"sort"
	"strings"
	"time"

	"github.com/nulab/autog"
	"github.com/nulab/autog/graph"
)

type Violation struct {
	Property string   `json:"property"`
	Case     Case     `json:"case"`
	Messages []string `json:"messages"`
	Extra    any      `json:"extra,omitempty"`
}

type Result struct {
	Property    string         `json:"property"`
	Seed        uint64         `json:"seed"`
	Evaluations int            `json:"evaluations"`
	Distinct    int            `json:"distinct_nontrivial"`
	Rule        string         `json:"rule"`
	Dist        map[string]int `json:"distribution"`
	Samples     []Case         `json:"samples"`
	Violations  []Violation    `json:"violations"`
	WallS       float64        `json:"wall_s"`
	Notes       []string       `json:"notes,omitempty"`
}

type crossingsMonitor struct{ vals []int }

func (m *crossingsMonitor) Log(phase int, alg, key string, val any) {
	if phase == 3 && key == "crossings" {
		if x, ok := val.(int); ok {
			m.vals = append(m.vals, x)
		}
	}
}

// property table: generator options and the oracle applied to each generated case
type propSpec struct {
	opts   GenOpts
	gen    func(r *Rng) Case
	oracle func(c Case, r *Rng) []string
	rule   string
	// traceFix adapts a generated case to what the correspondence check can trace (nil: unchanged)
	traceFix func(c Case) Case
	// corpus: fixed structured cases evaluated before the random ones (nil: none)
	corpus func() []Case
}

func nontrivial(c Case) bool { return len(c.Edges) >= 2 }

func baseGen(o GenOpts) func(r *Rng) Case {
	return func(r *Rng) Case { return genCase(r, o) }
}

func layoutThen(f func(c Case, out graph.Layout) []string) func(c Case, r *Rng) []string {
	return func(c Case, r *Rng) []string {
		out, err := runLayout(c)
		if err != nil {
			return []string{"Layout did not return: " + firstLines(err.Error(), 12)}
		}
		return f(c, out)
	}
}

var allSizeModes = []string{"none", "fixed", "map", "fixedmap"}

func specs() map[string]propSpec {
	m := map[string]propSpec{}
	full := GenOpts{MaxN: 8, Kinds: connectedKinds, SelfLoops: true, MultiComp: true,
		P1: allP1, P2: allP2, P4: sizeAwareP4, P5: basicP5, SizeModes: allSizeModes, VirtualOut: []bool{false, true}, P3Noop: 12, AdvIDs: 8}
	if v := os.Getenv("VH_MAXN"); v != "" { // diagnosis only
		fmt.Sscan(v, &full.MaxN)
	}
	if v := os.Getenv("VH_P4"); v != "" { // diagnosis only
		full.P4 = strings.Split(v, ",")
	}
	if v := os.Getenv("VH_P5"); v != "" { // diagnosis only
		full.P5 = strings.Split(v, ",")
	}
	if v := os.Getenv("VH_KINDS"); v != "" { // diagnosis only
		full.Kinds = strings.Split(v, ",")
	}
	if os.Getenv("VH_NOCOMP") != "" { // diagnosis only
		full.MultiComp, full.SelfLoops = false, false
	}

	o := full
	o.P4 = []string{"sink", "valign", "packright", "ns", "bk", "bk0", "bk1", "bk2", "bk3"}
	o.P5 = []string{"polyline", "straight", "ortho", "noop"}
	o.MaxN = 14
	if v := os.Getenv("VH_MAXN"); v != "" {
		fmt.Sscan(v, &o.MaxN)
	}
	oDec := o
	oDec.Decimal = 100
	oC01 := o // (a closure captures the VARIABLE o, which is reassigned below: every generator closure gets its own copy)
	m["C01"] = propSpec{opts: o, gen: func(r *Rng) Case {
		if r.Bool(25) {
			// sizes like 33.3 and 100.1: coordinates are rounded sums, and a loop that waits for an exact equality may spin
			c := genCase(r, oDec)
			c.Kind += "+decimal"
			return c
		}
		return genCase(r, oC01)
	}, corpus: scaleCorpus, oracle: layoutThen(oracleC01), rule: "random multigraphs up to 14 nodes per part (cycles, parallel and antiparallel edges, self-loops, several components) x every production algorithm x both orderings x size options x thoroughness; a corpus of large structured inputs first; watchdog: 20 s and 4 GiB per call, confirmed in a child process; spline routing in child processes under a 4 s limit (coverage.spline_routing)"}

	o = full
	o.P4 = []string{"sink", "valign", "packright", "bk", "bk0", "bk1", "bk2", "bk3"}
	o.P5 = []string{"polyline", "straight", "ortho", "noop"}
	m["C02"] = propSpec{opts: o, gen: baseGen(o), oracle: layoutThen(oracleC02), rule: "random multigraphs (10 shapes, self-loops, several components) x algorithm grid x size options; non-trivial = at least 2 edges; distinct by full case key"}

	o = full
	o.SpacingsPos = true
	o.P4 = []string{"sink", "valign", "packright", "bk", "bk1"}
	o.P5 = []string{"polyline", "straight", "ortho", "noop", "polyline", "ortho"} // the flag of a reversed edge is set whatever the router (seeded C03-6)
	m["C03"] = propSpec{opts: o, gen: baseGen(o), oracle: layoutThen(oracleC03), rule: "random multigraphs x both breakers x both layerers x positioners, LayerSpacing > 0, heterogeneous heights"}

	o = full
	o.LayerPos = true // with LayerSpacing = 0 and zero heights two bands share one y and cannot be told apart from outside
	m["C04"] = propSpec{opts: o, gen: baseGen(o), oracle: layoutThen(oracleC04), rule: "random multigraphs x size-aware positioners x heterogeneous sizes incl. zero x NodeSpacing >= 0"}

	o = full
	o.SpacingsPos = true
	o.P4 = []string{"sink", "valign", "packright", "bk", "bk2"}
	m["C05"] = propSpec{opts: o, gen: baseGen(o), oracle: layoutThen(oracleC05), rule: "random multigraphs incl. reversed, long, parallel edges, several components x positioners x {straight, polyline, ortho}"}

	o = full
	o.SpacingsPos = true
	o.Kinds = []string{"longdag", "dag", "cyclic", "dense", "layered", "multi"}
	m["C06"] = propSpec{opts: o, gen: baseGen(o), oracle: layoutThen(func(c Case, out graph.Layout) []string {
		return append(oracleC06(c, out), oracleC06Bends(c, out)...)
	}), rule: "random graphs with long edges x size-aware positioners x heterogeneous sizes x routing styles"}

	o = full
	o.P4 = []string{"sink", "valign", "packright", "bk", "bk3"}
	m["C07"] = propSpec{opts: o, gen: baseGen(o), oracle: layoutThen(oracleC07), rule: "random multigraphs (several components, self-loops, antiparallel edges) x algorithm grid, 4 repeated calls each"}

	o = full
	o.P4 = []string{"sink", "valign", "packright", "bk"}
	oBig := o
	oBig.MaxN, oBig.Kinds, oBig.MultiComp = 20, []string{"dag", "multidag", "slack", "layered", "longdag"}, false
	oC08 := o
	m["C08"] = propSpec{opts: o, gen: func(r *Rng) Case {
		if r.Bool(35) {
			// larger DAGs with several sources: ties (equal slack, equal medians) that an ordering by name would break
			return genCase(r, oBig)
		}
		return genCase(r, oC08)
	}, oracle: func(c Case, r *Rng) []string {
		out, err := runLayout(c)
		if err != nil {
			return []string{"Layout did not return: " + firstLines(err.Error(), 12)}
		}
		rho := adversarialRenaming(c, r)
		msgs := oracleC08(c, out, rho)
		if len(msgs) > 0 {
			msgs = append(msgs, fmt.Sprintf("renaming: %q", rho))
		}
		return msgs
	}, rule: "random multigraphs x adversarial injective renamings (helper-name alphabets, empty, long, unicode)"}

	o = full
	o.P4 = []string{"sink", "valign", "packright", "bk", "bk0", "bk2", "ns"}
	oC09 := o
	m["C09"] = propSpec{opts: o, gen: func(r *Rng) Case {
		if r.Bool(12) {
			// a component whose network-simplex budget binds (thoroughness 1, dense, 14-22 nodes) next to a chain that
			// changes floor(sqrt(total number of nodes)): anything derived from the whole graph shows here
			var es []edgeI
			na := 14 + r.Intn(7)
			a, _ := genGraph(r, "dense", na)
			for _, e := range a {
				if e[0] != e[1] {
					es = append(es, edgeI{min(e[0], e[1]), max(e[0], e[1])})
				}
			}
			nb := 2 + r.Intn(30)
			var b []edgeI
			for i := 1; i < nb; i++ {
				b = append(b, edgeI{na + i - 1, na + i})
			}
			all := interleave(r, [][]edgeI{es, b})
			if r.Bool(50) {
				all = interleave(r, [][]edgeI{b, es})
			}
			c := Case{Kind: "capped+chain", Edges: toStrings(all, nid), P1: allP1[r.Intn(2)], P2: "ns", P4: []string{"valign", "packright", "sink"}[r.Intn(3)],
				P5: "straight", SizeMode: "fixed", FixedW: 16, FixedH: 8, NodeSpacing: 8, LayerSpacing: 16, Thoroughness: 1,
				P3: "noop"} // no crossing minimisation: a dense graph has hundreds of helper nodes
			return c
		}
		for {
			c := genCase(r, oC09)
			if _, k := inputComponents(c); k >= 2 {
				return c
			}
		}
	}, oracle: layoutThen(oracleC09), rule: "interleaved disjoint unions of 2-3 random parts (incl. single self-looped nodes) x algorithm grid"}

	o = GenOpts{MaxN: 9, Kinds: connectedKinds, SelfLoops: true, MultiComp: true, P1: allP1, P2: []string{"ns"},
		P4: []string{"valign"}, P5: []string{"straight"}, SizeModes: []string{"none"}, VirtualOut: []bool{false}, SpacingsPos: true}
	m["C10"] = propSpec{opts: o, gen: baseGen(o), oracle: func(c Case, r *Rng) []string {
		out, capped, err := runLayoutCapped(c)
		if err != nil {
			return []string{"Layout did not return: " + firstLines(err.Error(), 12)}
		}
		return oracleC10(c, out, capped)
	}, rule: "random multigraphs up to 9 nodes per part x both breakers x network simplex; optimum by branch and bound"}

	o.P2 = []string{"lp"}
	oC11 := o
	oDeep := o
	oDeep.MaxN, oDeep.Kinds, oDeep.MultiComp, oDeep.SelfLoops = 48, []string{"longdag", "longdag", "layered", "dag", "cyclic"}, false, false
	m["C11"] = propSpec{opts: o, gen: func(r *Rng) Case {
		if r.Bool(15) {
			// paths of 17 and more nodes: the depth of the walk matters to an iterative or memoising implementation (seeded C11-6)
			c := genCase(r, oDeep)
			c.Kind += "+deep"
			return c
		}
		return genCase(r, oC11)
	}, oracle: layoutThen(oracleC11), rule: "random multigraphs x both breakers x longest-path layering; 15% with up to 48 nodes per part (long paths)"}

	o = GenOpts{MaxN: 10, Kinds: []string{"dag", "longdag", "cyclic", "dense", "layered", "outtree", "cycle", "dag", "longdag", "cyclic", "dense", "layered", "deep"}, MultiComp: true, Simple: true,
		P1: allP1, P2: allP2, P4: sizeAwareP4, P5: []string{"polyline"}, SizeModes: allSizeModes, VirtualOut: []bool{false, true}, SpacingsPos: true}
	m["C12"] = propSpec{opts: o, gen: baseGen(o), oracle: func(c Case, r *Rng) []string {
		mon := &crossingsMonitor{}
		out, err := runLayout(c, autog.WithMonitor(mon))
		if err != nil {
			return []string{"Layout did not return: " + firstLines(err.Error(), 12)}
		}
		reported := 0
		for _, x := range mon.vals {
			reported += x
		}
		drawn, ok := drawnCrossings(c, out)
		if !ok {
			return []string{"edge without route"}
		}
		if reported != drawn {
			return []string{fmt.Sprintf("monitor reported %d crossings (%v per component), the drawing has %d", reported, mon.vals, drawn)}
		}
		return nil
	}, rule: "random simple graphs x both layerers x size-aware positioners x polyline; crossings of the drawing from node and bend x"}

	o = GenOpts{MaxN: 10, Kinds: []string{"outtree", "intree", "outtree", "intree", "talltree", "tallintree"}, P1: allP1, P2: []string{"ns"}, P4: sizeAwareP4, P5: []string{"polyline"},
		SizeModes: allSizeModes, VirtualOut: []bool{false}, SpacingsPos: true}
	m["C13"] = propSpec{opts: o, gen: baseGen(o), oracle: layoutThen(func(c Case, out graph.Layout) []string {
		drawn, ok := drawnCrossings(c, out)
		if !ok {
			return []string{"edge without route"}
		}
		if drawn != 0 {
			return []string{fmt.Sprintf("tree drawn with %d crossings", drawn)}
		}
		return nil
	}), rule: "random out-trees and in-trees, random edge order x size-aware positioners"}

	o = full
	o.P4 = []string{"valign"}
	o.P5 = []string{"straight"}
	o.AdvIDs = 30 // which edges are reversed must not depend on what the nodes are called
	m["C14"] = propSpec{opts: o, gen: baseGen(o), oracle: layoutThen(oracleC14), rule: "random cyclic and acyclic multigraphs x {greedy, dfs}"}

	o = GenOpts{MaxN: 9, Kinds: connectedKinds, P1: allP1, P2: allP2, P4: []string{"valign", "packright"}, P5: basicP5,
		SizeModes: allSizeModes, VirtualOut: []bool{true}, LayerPos: true, P3Noop: 15}
	m["C16"] = propSpec{opts: o, gen: baseGen(o), oracle: layoutThen(oracleC16), rule: "random connected multigraphs x heterogeneous widths x NodeSpacing >= 0 x {valign, packright}, helper nodes visible"}

	o = full
	o.P4 = []string{"sink", "valign", "packright", "bk", "bk0", "bk1", "bk2", "bk3"}
	m["C17"] = propSpec{opts: o, gen: baseGen(o), oracle: func(c Case, r *Rng) []string {
		out, err := runLayout(c)
		if err != nil {
			return []string{"Layout did not return: " + firstLines(err.Error(), 12)}
		}
		k := r.Intn(10) - 3
		if r.Bool(25) { // very small and very large units: an absolute threshold anywhere shows only there
			k = 20 + r.Intn(25)
			if r.Bool(50) {
				k = -k
			}
		}
		f := 1.0
		for i := 0; i < k; i++ {
			f *= 2
		}
		for i := 0; i > k; i-- {
			f /= 2
		}
		msgs := oracleC17(c, out, f)
		if len(msgs) > 0 {
			msgs = append(msgs, fmt.Sprintf("scale factor %v", f))
		}
		return msgs
	}, rule: "random multigraphs x sizes x spacings x scale 2^k, k in -3..6, a quarter with |k| in 20..44"}
	o = full
	o.P4 = []string{"sink", "valign", "packright", "bk", "ns"}
	o.MaxN = 7
	m["C18"] = propSpec{opts: o, gen: baseGen(o), oracle: oracleC18, rule: "scripted history of 6 Layout calls around a random case: with monitor, panicking with monitor (empty input / wrong arity), without, with, panicking without, without; each monitor stamps events with the running call"}
	m["C15"] = propSpec{opts: o, gen: baseGen(o), oracle: oracleC15, rule: "8 goroutines x 3 calls on independent variants of a random case, compared with the same calls run alone; binary built with -race"}
	return m
}

// budget > 0: stop generating after this many seconds (VH_BUDGET)
var budget = func() float64 {
	b := 0.0
	if v := os.Getenv("VH_BUDGET"); v != "" {
		fmt.Sscan(v, &b)
	}
	return b
}()

func runProbe(prop string, seed uint64, n int, outPath string, maxViol int) int {
	sp, ok := specs()[prop]
	if !ok {
		fmt.Fprintln(os.Stderr, "no oracle spec for", prop)
		return 2
	}
	start := time.Now()
	r := NewRng(seed)
	res := Result{Property: prop, Seed: seed, Rule: sp.rule, Dist: map[string]int{}}
	seen := map[string]bool{}
	var fixed []Case
	if sp.corpus != nil && os.Getenv("VH_NOCORPUS") == "" { // the shards of a parallel search: only the first runs the corpus
		fixed = sp.corpus()
	}
	for i := 0; i < n+len(fixed); i++ {
		var c Case
		if i < len(fixed) {
			c = fixed[i]
		} else {
			c = sp.gen(r)
			c.Name = fmt.Sprintf("%s-s%d-%d", prop, seed, i-len(fixed))
		}
		res.Evaluations++
		k := c.Key()
		if !seen[k] && nontrivial(c) {
			seen[k] = true
			res.Distinct++
		}
		res.Dist["kind:"+c.Kind]++
		res.Dist["p1:"+c.P1]++
		res.Dist["p2:"+c.P2]++
		res.Dist["p4:"+c.P4]++
		res.Dist["p5:"+c.P5]++
		res.Dist["p3:"+c.P3]++
		res.Dist["size:"+c.SizeMode]++
		res.Dist[fmt.Sprintf("edges:%02d", (len(c.Edges)/4)*4)]++
		if len(res.Samples) < 3 {
			res.Samples = append(res.Samples, c)
		}
		if budget > 0 && time.Since(start).Seconds() > budget {
			break
		}
		msgs, hung := guarded(func() []string { return sp.oracle(c, rngFor(c)) })
		if hung && confirmHang(c) {
			hung = false // the machine was busy: the same call returns in a fresh process; not a hang
			res.Dist["watchdog-not-confirmed"]++
			continue
		}
		if hung {
			// the goroutine cannot be stopped: record the case and end the process
			res.Violations = append(res.Violations, Violation{Property: prop, Case: c, Messages: msgs})
			res.WallS = time.Since(start).Seconds()
			writeJSON(outPath, res)
			return 0
		}
		if len(msgs) > 0 {
			if len(msgs) > 6 {
				msgs = append(msgs[:6], fmt.Sprintf("... and %d more", len(msgs)-6))
			}
			sc, smsgs := shrinkCase(c, sp, seed)
			if len(smsgs) > 6 {
				smsgs = append(smsgs[:6], fmt.Sprintf("... and %d more", len(smsgs)-6))
			}
			res.Violations = append(res.Violations, Violation{Property: prop, Case: sc, Messages: smsgs, Extra: map[string]any{"unshrunk": c, "unshrunk_messages": msgs}})
			if len(res.Violations) >= maxViol {
				break
			}
		}
	}
	res.WallS = time.Since(start).Seconds()
	writeJSON(outPath, res)
	return 0
}

// every random choice an oracle makes for a case derives from the case itself, so that a recorded violation
// replays exactly
func rngFor(c Case) *Rng {
	h := uint64(1469598103934665603)
	for _, b := range []byte(c.Key()) {
		h = (h ^ uint64(b)) * 1099511628211
	}
	return NewRng(h)
}

// guarded evaluates f under a watchdog: wall-clock (VH_CASE_TIMEOUT seconds, default 20) and heap (4 GiB)
func guarded(f func() []string) (msgs []string, hung bool) {
	limit := 20.0
	if v := os.Getenv("VH_CASE_TIMEOUT"); v != "" {
		fmt.Sscan(v, &limit)
	}
	done := make(chan []string, 1)
	go func() {
		defer func() {
			if r := recover(); r != nil {
				done <- []string{fmt.Sprintf("panic outside Layout: %v", r)}
			}
		}()
		done <- f()
	}()
	tick := time.NewTicker(200 * time.Millisecond)
	defer tick.Stop()
	deadline := time.After(time.Duration(limit * float64(time.Second)))
	for {
		select {
		case m := <-done:
			return m, false
		case <-tick.C:
			var ms runtime.MemStats
			runtime.ReadMemStats(&ms)
			if ms.HeapAlloc > 4<<30 {
				return []string{fmt.Sprintf("Layout did not return: heap grew beyond 4 GiB (%d MiB)", ms.HeapAlloc>>20)}, true
			}
		case <-deadline:
			buf := make([]byte, 1<<16)
			n := runtime.Stack(buf, true)
			return []string{fmt.Sprintf("Layout did not return within %.0fs (hang); goroutines:\n%s", limit, firstLines(string(buf[:n]), 40))}, true
		}
	}
}

// confirmHang runs Layout on the case once more, alone in a child process with three times the budget: a watchdog
// that fires on a loaded machine must not be reported as a call that does not return. true = the child returned.
func confirmHang(c Case) bool {
	self, err := os.Executable()
	if err != nil {
		return false
	}
	f, err := os.CreateTemp("", "vh-hang-*.json")
	if err != nil {
		return false
	}
	f.Close()
	defer os.Remove(f.Name())
	writeJSON(f.Name(), []Case{c})
	cmd := exec.Command(self, "one", "-file", f.Name())
	done := make(chan error, 1)
	go func() { done <- cmd.Run() }()
	select {
	case err := <-done:
		return err == nil
	case <-time.After(60 * time.Second):
		cmd.Process.Kill()
		<-done
		return false
	}
}

// shrinkCase greedily removes edges (and then simplifies options) while the oracle still reports a violation.
// Oracles that draw random choices get a fixed rng per attempt so the result replays.
func shrinkCase(c Case, sp propSpec, seed uint64) (Case, []string) {
	hangs := 0
	try := func(d Case) []string {
		if len(d.Edges) == 0 || hangs > 0 {
			return nil
		}
		// a shrunk variant may not return either: evaluate under the watchdog and stop shrinking after a hang
		// (the goroutine that spins cannot be stopped)
		os.Setenv("VH_CASE_TIMEOUT", "5")
		defer os.Unsetenv("VH_CASE_TIMEOUT")
		m, hung := guarded(func() []string { return sp.oracle(d, rngFor(d)) })
		if hung {
			hangs++
			return nil
		}
		return m
	}
	best := c
	bestMsgs := try(c)
	if len(bestMsgs) == 0 {
		// only fails with the original rng stream (or non-deterministically): keep as is
		return c, []string{"(not reproducible with a fresh rng) "}
	}
	budget := 400
	changed := true
	for changed && budget > 0 {
		changed = false
		for i := 0; i < len(best.Edges) && budget > 0; i++ {
			d := best
			d.Edges = append(append([][]string{}, best.Edges[:i]...), best.Edges[i+1:]...)
			budget--
			if m := try(d); len(m) > 0 {
				best, bestMsgs = d, m
				changed = true
				i--
			}
		}
	}
	// simplify options
	has := func(xs []string, x string) bool {
		for _, y := range xs {
			if x == y {
				return true
			}
		}
		return false
	}
	for _, f := range []func(d *Case) bool{
		func(d *Case) bool {
			d.SizeMode = "none"
			d.Sizes = nil
			d.FixedW, d.FixedH = 0, 0
			return has(sp.opts.SizeModes, "none")
		},
		func(d *Case) bool { d.VirtualOut = false; return len(sp.opts.VirtualOut) > 1 },
		func(d *Case) bool { d.P5 = "straight"; return has(sp.opts.P5, "straight") },
		func(d *Case) bool { d.P4 = "valign"; return has(sp.opts.P4, "valign") },
		func(d *Case) bool { d.P1 = "dfs"; return has(sp.opts.P1, "dfs") },
	} {
		d := best
		if !f(&d) {
			continue
		}
		if m := try(d); len(m) > 0 {
			best, bestMsgs = d, m
		}
	}
	best.Name = c.Name + "-shrunk"
	return best, bestMsgs
}

func writeJSON(path string, v any) {
	b, err := json.MarshalIndent(v, "", " ")
	if err != nil {
		panic(err)
	}
	if path == "" || path == "-" {
		os.Stdout.Write(b)
		os.Stdout.Write([]byte("\n"))
		return
	}
	if err := os.WriteFile(path, b, 0o644); err != nil {
		panic(err)
	}
}

func main() {
	if len(os.Args) < 2 {
		fmt.Fprintln(os.Stderr, "usage: vh <probe|replay|...> ...")
		os.Exit(2)
	}
	cmd := os.Args[1]
	fs := flag.NewFlagSet(cmd, flag.ExitOnError)
	prop := fs.String("prop", "", "property id")
	seed := fs.Uint64("seed", 1, "seed")
	n := fs.Int("n", 1000, "number of cases")
	out := fs.String("out", "-", "output json")
	maxViol := fs.Int("maxviol", 5, "stop after this many violations")
	file := fs.String("file", "", "input file")
	fs.Parse(os.Args[2:])
	switch cmd {
	case "probe":
		os.Exit(runProbe(*prop, *seed, *n, *out, *maxViol))
	case "replay":
		os.Exit(runReplay(*file))
	case "show":
		b, _ := os.ReadFile(*file)
		var v Violation
		json.Unmarshal(b, &v)
		out, err := runLayout(v.Case)
		fmt.Println(err)
		for _, n := range out.Nodes {
			fmt.Printf("%+v\n", n)
		}
		for _, e := range out.Edges {
			fmt.Printf("%+v\n", e)
		}
		os.Exit(0)
	default:
		if f, ok := extraCommands[cmd]; ok {
			os.Exit(f(fs, *prop, *seed, *n, *out, *file))
		}
		fmt.Fprintln(os.Stderr, "unknown command", cmd)
		os.Exit(2)
	}
}

// readCases reads a JSON list of cases, or a violation file holding one case
func readCases(path string) []Case {
	b, err := os.ReadFile(path)
	if err != nil {
		panic(err)
	}
	var cs []Case
	if json.Unmarshal(b, &cs) == nil && len(cs) > 0 {
		return cs
	}
	var v Violation
	if json.Unmarshal(b, &v) == nil && len(v.Case.Edges) > 0 {
		return []Case{v.Case}
	}
	var idx []struct {
		Case Case `json:"case"`
	}
	if json.Unmarshal(b, &idx) == nil {
		for _, e := range idx {
			cs = append(cs, e.Case)
		}
	}
	return cs
}

var extraCommands = map[string]func(fs *flag.FlagSet, prop string, seed uint64, n int, out, file string) int{}

// replay: re-evaluates the oracle of the violation's property on its recorded case
func runReplay(path string) int {
	b, err := os.ReadFile(path)
	if err != nil {
		fmt.Fprintln(os.Stderr, err)
		return 2
	}
	var v Violation
	if err := json.Unmarshal(b, &v); err != nil {
		fmt.Fprintln(os.Stderr, err)
		return 2
	}
	sp, ok := specs()[v.Property]
	if !ok {
		fmt.Fprintln(os.Stderr, "no oracle for", v.Property)
		return 2
	}
	msgs := sp.oracle(v.Case, rngFor(v.Case))
	keys := []string{}
	for _, m := range msgs {
		keys = append(keys, m)
	}
	sort.Strings(keys)
	if len(msgs) > 0 {
		fmt.Println("REPRODUCED", v.Property)
		fmt.Println(strings.Join(msgs, "\n"))
		return 1
	}
	fmt.Println("not reproduced")
	return 0
}
