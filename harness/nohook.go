//go:build !verif

package main

import "github.com/nulab/autog/graph"

// without the verif hooks the harness cannot tell whether the simplex loop ended on its cap
func runLayoutCapped(c Case) (graph.Layout, bool, error) {
	out, err := runLayout(c)
	return out, false, err
}
