package main

import (
	"fmt"
	"math"
	"reflect"
	"regexp"
	"sort"

	"github.com/nulab/autog"
	"github.com/nulab/autog/graph"
)

// The functions in this file are direct oracles for the given properties, evaluated on the
// implementation's public output. They are tests, not proofs: they are used to validate the Coq model
// against the code and to search for a concrete failing input when a proof obligation or the
// correspondence breaks.

type nodeIdx map[string]graph.Node

func indexNodes(out graph.Layout) (nodeIdx, []string) {
	m := nodeIdx{}
	var dups []string
	for _, n := range out.Nodes {
		if _, ok := m[n.ID]; ok {
			dups = append(dups, n.ID)
		}
		m[n.ID] = n
	}
	return m, dups
}

// connected components of the input (by node id), in order of first appearance
func inputComponents(c Case) (comp map[string]int, ncomp int) {
	parent := map[string]string{}
	var find func(string) string
	find = func(x string) string {
		if parent[x] == x {
			return x
		}
		r := find(parent[x])
		parent[x] = r
		return r
	}
	for _, id := range c.NodeIDs() {
		parent[id] = id
	}
	for _, e := range c.Edges {
		a, b := find(e[0]), find(e[1])
		if a != b {
			parent[a] = b
		}
	}
	comp = map[string]int{}
	rootIdx := map[string]int{}
	for _, id := range c.NodeIDs() {
		r := find(id)
		if _, ok := rootIdx[r]; !ok {
			rootIdx[r] = len(rootIdx)
		}
		comp[id] = rootIdx[r]
	}
	return comp, len(rootIdx)
}

func finite(x float64) bool { return !math.IsNaN(x) && !math.IsInf(x, 0) }

var virtualName = regexp.MustCompile(`^V[0-9]+$`)

// ---------- C01 ----------

// Layout returned (layoutThen reports panics); all it returned must be finite numbers
func oracleC01(c Case, out graph.Layout) []string {
	var v []string
	for _, n := range out.Nodes {
		if !finite(n.X) || !finite(n.Y) || !finite(n.W) || !finite(n.H) {
			v = append(v, fmt.Sprintf("node %q has a non-finite coordinate: %+v", n.ID, n.Size))
		}
	}
	for i, e := range out.Edges {
		for _, p := range e.Points {
			if !finite(p[0]) || !finite(p[1]) {
				v = append(v, fmt.Sprintf("edge #%d has a non-finite route point %v", i, p))
				break
			}
		}
	}
	return v
}

// ---------- C02 ----------

func oracleC02(c Case, out graph.Layout) []string {
	var v []string
	ids := c.NodeIDs()
	idset := map[string]bool{}
	for _, id := range ids {
		idset[id] = true
	}
	count := map[string]int{}
	for _, n := range out.Nodes {
		count[n.ID]++
	}
	for _, id := range ids {
		if count[id] != 1 {
			v = append(v, fmt.Sprintf("node %q appears %d times in output", id, count[id]))
		}
	}
	for _, n := range out.Nodes {
		if !idset[n.ID] {
			if !c.VirtualOut {
				v = append(v, fmt.Sprintf("output has node %q that is not an input node", n.ID))
			} else if !virtualName.MatchString(n.ID) {
				v = append(v, fmt.Sprintf("output has unexpected extra node %q", n.ID))
			}
			continue
		}
		w, h := c.ConfiguredSize(n.ID)
		if count[n.ID] == 1 && (n.W != w || n.H != h) {
			v = append(v, fmt.Sprintf("node %q has size %vx%v, configured %vx%v", n.ID, n.W, n.H, w, h))
		}
	}
	type pair [2]string
	in := map[pair]int{}
	for _, e := range c.Edges {
		in[pair{e[0], e[1]}]++
	}
	og := map[pair]int{}
	for _, e := range out.Edges {
		og[pair{e.FromID, e.ToID}]++
		if e.FromID == e.ToID && len(e.Points) != 0 {
			v = append(v, fmt.Sprintf("self-loop %q has %d points", e.FromID, len(e.Points)))
		}
	}
	for p, k := range in {
		if og[p] != k {
			v = append(v, fmt.Sprintf("edge %q->%q given %d times, returned %d times", p[0], p[1], k, og[p]))
		}
	}
	for p, k := range og {
		if in[p] == 0 {
			v = append(v, fmt.Sprintf("edge %q->%q returned %d times but never given", p[0], p[1], k))
		}
	}
	return v
}

// ---------- C03 ----------

// bands of one component: sorted distinct Y values
func bandsOf(nodes []graph.Node) []float64 {
	ys := map[float64]bool{}
	for _, n := range nodes {
		ys[n.Y] = true
	}
	var s []float64
	for y := range ys {
		s = append(s, y)
	}
	sort.Float64s(s)
	return s
}

func isAcyclicInput(c Case) bool {
	adj := map[string][]string{}
	for _, e := range c.Edges {
		if e[0] != e[1] {
			adj[e[0]] = append(adj[e[0]], e[1])
		}
	}
	state := map[string]int{}
	var dfs func(string) bool
	dfs = func(u string) bool {
		state[u] = 1
		for _, w := range adj[u] {
			if state[w] == 1 {
				return false
			}
			if state[w] == 0 && !dfs(w) {
				return false
			}
		}
		state[u] = 2
		return true
	}
	for _, id := range c.NodeIDs() {
		if state[id] == 0 && !dfs(id) {
			return false
		}
	}
	return true
}

func oracleC03(c Case, out graph.Layout) []string {
	var v []string
	comp, ncomp := inputComponents(c)
	idx, _ := indexNodes(out)
	byComp := make([][]graph.Node, ncomp)
	for _, n := range out.Nodes {
		if k, ok := comp[n.ID]; ok {
			byComp[k] = append(byComp[k], n)
		}
	}
	for k, ns := range byComp {
		bs := bandsOf(ns)
		for i := 1; i < len(bs); i++ {
			bottom := bs[i-1]
			for _, n := range ns {
				if n.Y == bs[i-1] {
					bottom = math.Max(bottom, n.Y+n.H)
				}
			}
			if bs[i] < bottom+c.LayerSpacing {
				v = append(v, fmt.Sprintf("component %d: band at y=%v starts less than LayerSpacing=%v below bottom %v of band above", k, bs[i], c.LayerSpacing, bottom))
			}
		}
	}
	acyclic := isAcyclicInput(c)
	for i, e := range out.Edges {
		if e.FromID == e.ToID {
			continue
		}
		f, okf := idx[e.FromID]
		t, okt := idx[e.ToID]
		if !okf || !okt {
			continue
		}
		if f.Y == t.Y {
			v = append(v, fmt.Sprintf("edge #%d %q->%q joins two nodes of the same band (y=%v)", i, e.FromID, e.ToID, f.Y))
			continue
		}
		up := t.Y < f.Y
		if up != e.ArrowHeadStart {
			v = append(v, fmt.Sprintf("edge #%d %q->%q runs upward=%v but ArrowHeadStart=%v", i, e.FromID, e.ToID, up, e.ArrowHeadStart))
		}
		if acyclic && up {
			v = append(v, fmt.Sprintf("acyclic input but edge #%d %q->%q runs upward", i, e.FromID, e.ToID))
		}
	}
	return v
}

// ---------- C04 ----------

func oracleC04(c Case, out graph.Layout) []string {
	var v []string
	ns := out.Nodes
	for _, n := range ns {
		if !finite(n.X) || !finite(n.Y) || n.X < 0 || n.Y < 0 {
			v = append(v, fmt.Sprintf("node %q has coordinate (%v,%v)", n.ID, n.X, n.Y))
		}
	}
	for i := 0; i < len(ns); i++ {
		for j := i + 1; j < len(ns); j++ {
			a, b := ns[i], ns[j]
			// open rectangles intersect
			if a.X < b.X+b.W && b.X < a.X+a.W && a.Y < b.Y+b.H && b.Y < a.Y+a.H {
				v = append(v, fmt.Sprintf("rectangles of %q and %q intersect", a.ID, b.ID))
			}
			if a.Y == b.Y {
				l, r := a, b
				if b.X < a.X || (b.X == a.X && b.W < a.W) {
					l, r = b, a
				}
				if r.X < l.X+l.W+c.NodeSpacing {
					v = append(v, fmt.Sprintf("same band: %q [x=%v w=%v] and %q [x=%v] closer than NodeSpacing=%v", l.ID, l.X, l.W, r.ID, r.X, c.NodeSpacing))
				}
			}
		}
	}
	return v
}

// ---------- C05 ----------

func oracleC05(c Case, out graph.Layout) []string {
	var v []string
	if c.P5 == "noop" {
		return nil
	}
	idx, _ := indexNodes(out)
	for i, e := range out.Edges {
		if e.FromID == e.ToID {
			continue
		}
		f, t := idx[e.FromID], idx[e.ToID]
		if len(e.Points) < 2 {
			v = append(v, fmt.Sprintf("edge #%d %q->%q has %d points", i, e.FromID, e.ToID, len(e.Points)))
			continue
		}
		for _, p := range e.Points {
			if !finite(p[0]) || !finite(p[1]) {
				v = append(v, fmt.Sprintf("edge #%d has non-finite point %v", i, p))
			}
		}
		upper, lower := f, t
		if e.ArrowHeadStart {
			upper, lower = t, f
		}
		if !(upper.Y < lower.Y) {
			// arrowhead flag inconsistent with geometry; reported by C03; C05 requires that the arrowhead end sits at ToID
			upper, lower = lower, upper
			v = append(v, fmt.Sprintf("edge #%d %q->%q: arrowhead end is not at the ToID node", i, e.FromID, e.ToID))
		}
		first, last := e.Points[0], e.Points[len(e.Points)-1]
		wantFirst := [2]float64{upper.X + upper.W/2, upper.Y + upper.H}
		wantLast := [2]float64{lower.X + lower.W/2, lower.Y}
		if first != wantFirst {
			v = append(v, fmt.Sprintf("edge #%d %q->%q first point %v, want bottom-centre %v of %q", i, e.FromID, e.ToID, first, wantFirst, upper.ID))
		}
		if last != wantLast {
			v = append(v, fmt.Sprintf("edge #%d %q->%q last point %v, want top-centre %v of %q", i, e.FromID, e.ToID, last, wantLast, lower.ID))
		}
	}
	return v
}

// ---------- C06 ----------

func oracleC06(c Case, out graph.Layout) []string {
	var v []string
	idx, _ := indexNodes(out)
	comp, _ := inputComponents(c)
	// x-range of a component, to select the nodes of an edge's own component
	compOf := func(id string) int { return comp[id] }
	realNodes := []graph.Node{}
	virt := []graph.Node{}
	for _, n := range out.Nodes {
		if _, ok := comp[n.ID]; ok {
			realNodes = append(realNodes, n)
		} else {
			virt = append(virt, n)
		}
	}
	virtUsed := make([]bool, len(virt))
	for i, e := range out.Edges {
		if e.FromID == e.ToID {
			continue
		}
		f, t := idx[e.FromID], idx[e.ToID]
		ps := e.Points
		switch c.P5 {
		case "straight":
			if len(ps) != 2 {
				v = append(v, fmt.Sprintf("straight edge #%d has %d points", i, len(ps)))
			}
		case "polyline":
			if len(ps) < 2 {
				v = append(v, fmt.Sprintf("polyline edge #%d has %d points", i, len(ps)))
				continue
			}
			for k := 1; k < len(ps); k++ {
				if ps[k][1] < ps[k-1][1] {
					v = append(v, fmt.Sprintf("polyline edge #%d goes upward at point %d: %v -> %v", i, k, ps[k-1], ps[k]))
				}
			}
			// bends are not strictly inside a node rectangle
			for k := 1; k < len(ps)-1; k++ {
				for _, n := range realNodes {
					if ps[k][0] > n.X && ps[k][0] < n.X+n.W && ps[k][1] > n.Y && ps[k][1] < n.Y+n.H {
						v = append(v, fmt.Sprintf("polyline edge #%d bend %v strictly inside node %q", i, ps[k], n.ID))
					}
				}
			}
			if c.VirtualOut {
				// height of the band at y within the edge's component (helper nodes have no height)
				k0 := compOf(e.FromID)
				bandH := func(y float64) float64 {
					h := 0.0
					for _, n := range realNodes {
						if compOf(n.ID) == k0 && n.Y == y {
							h = math.Max(h, n.H)
						}
					}
					return h
				}
				lo, hi := math.Min(f.Y, t.Y), math.Max(f.Y, t.Y)
				// helper nodes at the bends: one per bend, at the bend's x, in the band the bend is drawn in
				for k := 1; k < len(ps)-1; k++ {
					found := false
					for j, vn := range virt {
						if !virtUsed[j] && vn.X+vn.W/2 == ps[k][0] && vn.Y+bandH(vn.Y)/2 == ps[k][1] && vn.Y > lo && vn.Y < hi {
							virtUsed[j] = true
							found = true
							break
						}
					}
					if !found {
						v = append(v, fmt.Sprintf("polyline edge #%d bend %v has no helper node at its x", i, ps[k]))
					}
				}
			}
		case "ortho":
			for k := 1; k < len(ps); k++ {
				if ps[k][0] != ps[k-1][0] && ps[k][1] != ps[k-1][1] {
					v = append(v, fmt.Sprintf("ortho edge #%d segment %v -> %v is neither horizontal nor vertical", i, ps[k-1], ps[k]))
				}
			}
		case "splines":
			if len(ps)%4 != 0 || len(ps) == 0 {
				v = append(v, fmt.Sprintf("spline edge #%d has %d points", i, len(ps)))
				continue
			}
			for k := 4; k < len(ps); k += 4 {
				if ps[k] != ps[k-1] {
					v = append(v, fmt.Sprintf("spline edge #%d pieces do not join: %v vs %v", i, ps[k-1], ps[k]))
				}
			}
		}
	}
	if c.P5 == "polyline" && c.VirtualOut {
		for j, u := range virtUsed {
			if !u {
				v = append(v, fmt.Sprintf("helper node %q at (%v,%v) is not the bend of any edge", virt[j].ID, virt[j].X, virt[j].Y))
			}
		}
	}
	return v
}

// number of bends must equal the number of intermediate bands: evaluated with helper nodes visible and
// zero heights so that the band index is y / LayerSpacing
func oracleC06Bends(c Case, out graph.Layout) []string {
	var v []string
	if c.P5 != "polyline" || c.SizeMode != "none" || c.LayerSpacing <= 0 {
		return nil
	}
	idx, _ := indexNodes(out)
	for i, e := range out.Edges {
		if e.FromID == e.ToID {
			continue
		}
		f, t := idx[e.FromID], idx[e.ToID]
		span := math.Abs(f.Y-t.Y) / c.LayerSpacing
		if float64(len(e.Points)-2) != span-1 {
			v = append(v, fmt.Sprintf("polyline edge #%d %q->%q spans %v bands but has %d bends", i, e.FromID, e.ToID, span, len(e.Points)-2))
		}
	}
	return v
}

// ---------- C07 ----------

func oracleC07(c Case, out graph.Layout) []string {
	var v []string
	edges := cloneEdges(c.Edges)
	sizes := sizeMap(c)
	sizesBefore := map[string]graph.Size{}
	for k, s := range sizes {
		sizesBefore[k] = s
	}
	opts := caseOptions(c)
	if c.SizeMode == "map" || c.SizeMode == "fixedmap" {
		opts = append(opts, autog.WithNodeSize(sizes))
	}
	var first graph.Layout
	for rep := 0; rep < 4; rep++ {
		o := autog.Layout(graph.EdgeSlice(edges), opts...)
		if rep == 0 {
			first = o
		} else if !reflect.DeepEqual(first, o) {
			v = append(v, fmt.Sprintf("repetition %d differs from the first call: %s", rep, diffLayouts(first, o)))
			break
		}
	}
	if !reflect.DeepEqual(edges, c.Edges) {
		v = append(v, "the caller's edge list was modified")
	}
	// the same edge list as windows of ONE flat slice (what strings.Fields + slicing gives a caller): a row then has spare
	// capacity that belongs to the rows after it, so an append to a row writes into the caller's data
	flat := make([]string, 0, 2*len(c.Edges)+4)
	for _, e := range c.Edges {
		flat = append(flat, e...)
	}
	flat = append(flat, "<spare>", "<spare>")
	flatBefore := append([]string(nil), flat...)
	rows := make([][]string, len(c.Edges))
	at := 0
	for i, e := range c.Edges {
		rows[i] = flat[at : at+len(e)] // capacity reaches to the end of flat
		at += len(e)
	}
	if o := autog.Layout(graph.EdgeSlice(rows), opts...); !reflect.DeepEqual(first, o) {
		v = append(v, "edge rows that share one backing array give a different layout: "+diffLayouts(first, o))
	}
	if !reflect.DeepEqual(flat, flatBefore) {
		v = append(v, fmt.Sprintf("the caller's edge data was modified (rows sharing one backing array): %v", flat))
	}
	if !reflect.DeepEqual(sizes, sizesBefore) {
		v = append(v, "the caller's size map was modified")
	}
	return v
}

func diffLayouts(a, b graph.Layout) string {
	if len(a.Nodes) != len(b.Nodes) {
		return fmt.Sprintf("node count %d vs %d", len(a.Nodes), len(b.Nodes))
	}
	for i := range a.Nodes {
		if a.Nodes[i] != b.Nodes[i] {
			return fmt.Sprintf("node #%d %+v vs %+v", i, a.Nodes[i], b.Nodes[i])
		}
	}
	if len(a.Edges) != len(b.Edges) {
		return fmt.Sprintf("edge count %d vs %d", len(a.Edges), len(b.Edges))
	}
	for i := range a.Edges {
		if !reflect.DeepEqual(a.Edges[i], b.Edges[i]) {
			return fmt.Sprintf("edge #%d %+v vs %+v", i, a.Edges[i], b.Edges[i])
		}
	}
	return "equal"
}

// ---------- C08 ----------

func renameCase(c Case, rho map[string]string) Case {
	d := c
	d.Edges = make([][]string, len(c.Edges))
	for i, e := range c.Edges {
		d.Edges[i] = []string{rho[e[0]], rho[e[1]]}
	}
	if c.Sizes != nil {
		d.Sizes = map[string][2]float64{}
		for k, s := range c.Sizes {
			if nk, ok := rho[k]; ok {
				d.Sizes[nk] = s
			}
		}
	}
	return d
}

func adversarialRenaming(c Case, r *Rng) map[string]string {
	ids := c.NodeIDs()
	pool := []string{"", "V1", "V2", "V3", "V0", "NE0", "NE1", "NE2", "NE3", "NE4", "V", "NE", "V01", " ", "\x00", "n0", "n1", "日本語のノード", "V١", "a\nb", "\"q\"", "ｖ1"}
	for i := 0; i < 12; i++ {
		pool = append(pool, fmt.Sprintf("V%d", i+4), fmt.Sprintf("NE%d", i+5))
	}
	long := ""
	for i := 0; i < 300; i++ {
		long += "x"
	}
	pool = append(pool, long, long+"y")
	if r.Bool(35) {
		// names that collide when two of them are glued together with a separator ("web"+"-"+"api-db" = "web-api"+"-"+"db"):
		// all words over a small alphabet of tokens joined by one separator
		sep := []string{"-", "_", "->", " ", ":", ",", "/", ""}[r.Intn(8)]
		tok := []string{"a", "b", "c"}
		pool = pool[:0]
		for _, x := range tok {
			pool = append(pool, x)
			for _, y := range tok {
				pool = append(pool, x+sep+y)
				for _, z := range tok {
					pool = append(pool, x+sep+y+sep+z)
				}
			}
		}
		if sep == "" { // distinct words only
			seen := map[string]bool{}
			var q []string
			for _, w := range pool {
				if !seen[w] {
					seen[w] = true
					q = append(q, w)
				}
			}
			pool = q
		}
	}
	p := r.Perm(len(pool))
	rho := map[string]string{}
	for i, id := range ids {
		if i < len(p) && r.Bool(80) {
			rho[id] = pool[p[i]]
		} else {
			rho[id] = "r_" + id // cannot collide with the pool
		}
	}
	return rho
}

func oracleC08(c Case, out graph.Layout, rho map[string]string) []string {
	var v []string
	d := renameCase(c, rho)
	out2, err := runLayout(d)
	if err != nil {
		return []string{"renamed input fails: " + firstLines(err.Error(), 3)}
	}
	if len(out.Nodes) != len(out2.Nodes) || len(out.Edges) != len(out2.Edges) {
		return []string{fmt.Sprintf("renamed input yields %d nodes/%d edges, original %d/%d", len(out2.Nodes), len(out2.Edges), len(out.Nodes), len(out.Edges))}
	}
	for i := range out.Nodes {
		a, b := out.Nodes[i], out2.Nodes[i]
		want, isInput := rho[a.ID]
		if !isInput {
			want = a.ID // helper node names are not renamed
		}
		if b.ID != want && !(c.VirtualOut && virtualName.MatchString(a.ID) && virtualName.MatchString(b.ID)) {
			v = append(v, fmt.Sprintf("node #%d: %q maps to %q but renamed run has %q", i, a.ID, want, b.ID))
		}
		if a.Size != b.Size {
			v = append(v, fmt.Sprintf("node #%d %q: %+v vs renamed %+v", i, a.ID, a.Size, b.Size))
		}
	}
	for i := range out.Edges {
		a, b := out.Edges[i], out2.Edges[i]
		if rho[a.FromID] != b.FromID || rho[a.ToID] != b.ToID || a.ArrowHeadStart != b.ArrowHeadStart || !reflect.DeepEqual(a.Points, b.Points) {
			v = append(v, fmt.Sprintf("edge #%d %q->%q: renamed run differs (%q->%q, ahs %v/%v, points %v vs %v)", i, a.FromID, a.ToID, b.FromID, b.ToID, a.ArrowHeadStart, b.ArrowHeadStart, a.Points, b.Points))
		}
	}
	return v
}

// ---------- C09 ----------

func oracleC09(c Case, out graph.Layout) []string {
	var v []string
	comp, ncomp := inputComponents(c)
	if ncomp < 2 {
		return nil
	}
	type ext struct{ lo, hi float64 }
	exts := make([]ext, ncomp)
	for k := 0; k < ncomp; k++ {
		sub := c
		sub.Edges = nil
		sub.Name = fmt.Sprintf("%s/part%d", c.Name, k)
		for _, e := range c.Edges {
			if comp[e[0]] == k {
				sub.Edges = append(sub.Edges, e)
			}
		}
		alone, err := runLayout(sub)
		if err != nil {
			v = append(v, fmt.Sprintf("part %d alone fails: %s", k, firstLines(err.Error(), 3)))
			continue
		}
		// restriction of the union's layout to this part, in output order
		var ns []graph.Node
		var es []graph.Edge
		for _, n := range out.Nodes {
			if kk, ok := comp[n.ID]; ok && kk == k {
				ns = append(ns, n)
			}
		}
		for _, e := range out.Edges {
			if comp[e.FromID] == k {
				es = append(es, e)
			}
		}
		var aloneNodes []graph.Node
		for _, n := range alone.Nodes {
			if _, ok := comp[n.ID]; ok {
				aloneNodes = append(aloneNodes, n)
			}
		}
		if len(ns) != len(aloneNodes) || len(es) != len(alone.Edges) {
			v = append(v, fmt.Sprintf("part %d: %d nodes/%d edges in union, %d/%d alone", k, len(ns), len(es), len(aloneNodes), len(alone.Edges)))
			continue
		}
		if len(ns) == 0 {
			continue
		}
		dx := ns[0].X - aloneNodes[0].X
		lo, hi := math.Inf(1), math.Inf(-1)
		for i := range ns {
			a, b := ns[i], aloneNodes[i]
			if a.ID != b.ID || a.X != b.X+dx || a.Y != b.Y || a.W != b.W || a.H != b.H {
				v = append(v, fmt.Sprintf("part %d node #%d: union %+v vs alone %+v shifted by %v", k, i, a, b, dx))
			}
			lo = math.Min(lo, a.X)
			hi = math.Max(hi, a.X+a.W)
		}
		exts[k] = ext{lo, hi}
		for i := range es {
			a, b := es[i], alone.Edges[i]
			same := a.FromID == b.FromID && a.ToID == b.ToID && a.ArrowHeadStart == b.ArrowHeadStart && len(a.Points) == len(b.Points)
			if same {
				for j := range a.Points {
					if a.Points[j][0] != b.Points[j][0]+dx || a.Points[j][1] != b.Points[j][1] {
						same = false
					}
				}
			}
			if !same {
				v = append(v, fmt.Sprintf("part %d edge #%d: union %+v vs alone %+v shifted by %v", k, i, a, b, dx))
			}
		}
	}
	if len(v) == 0 && c.P4 != "bk" && c.P4 != "bk0" && c.P4 != "bk1" && c.P4 != "bk2" && c.P4 != "bk3" {
		for a := 0; a < ncomp; a++ {
			for b := a + 1; b < ncomp; b++ {
				l, r := exts[a], exts[b]
				if r.lo < l.lo {
					l, r = r, l
				}
				if r.lo < l.hi+c.NodeSpacing {
					v = append(v, fmt.Sprintf("components %d and %d: extents [%v,%v] and [%v,%v] are closer than NodeSpacing=%v", a, b, exts[a].lo, exts[a].hi, exts[b].lo, exts[b].hi, c.NodeSpacing))
				}
			}
		}
	}
	return v
}

// ---------- layering helpers (C10, C11): zero heights, band index = y / LayerSpacing ----------

type drawnEdge struct{ from, to string } // orientation as drawn (downward if layering is right)

func drawnEdges(out graph.Layout) []drawnEdge {
	var es []drawnEdge
	for _, e := range out.Edges {
		if e.FromID == e.ToID {
			continue
		}
		if e.ArrowHeadStart {
			es = append(es, drawnEdge{e.ToID, e.FromID})
		} else {
			es = append(es, drawnEdge{e.FromID, e.ToID})
		}
	}
	return es
}

func layersFromY(c Case, out graph.Layout) (map[string]int, bool) {
	if c.SizeMode != "none" || c.LayerSpacing <= 0 {
		return nil, false
	}
	l := map[string]int{}
	for _, n := range out.Nodes {
		q := n.Y / c.LayerSpacing
		if q != math.Floor(q) {
			return nil, false
		}
		l[n.ID] = int(q)
	}
	return l, true
}

// exact minimum of sum of spans over all layerings with every (drawn) edge spanning >= 1, by branch and bound.
// Returns true if some layering is strictly better than `bound`.
func existsBetterLayering(nodes []string, es []drawnEdge, bound int) (bool, map[string]int) {
	n := len(nodes)
	id := map[string]int{}
	for i, s := range nodes {
		id[s] = i
	}
	// topological order
	indeg := make([]int, n)
	out := make([][]int, n)
	in := make([][]int, n)
	for _, e := range es {
		a, b := id[e.from], id[e.to]
		out[a] = append(out[a], b)
		in[b] = append(in[b], a)
		indeg[b]++
	}
	var order []int
	var q []int
	for i := 0; i < n; i++ {
		if indeg[i] == 0 {
			q = append(q, i)
		}
	}
	for len(q) > 0 {
		u := q[0]
		q = q[1:]
		order = append(order, u)
		for _, w := range out[u] {
			indeg[w]--
			if indeg[w] == 0 {
				q = append(q, w)
			}
		}
	}
	if len(order) != n {
		return false, nil // drawn orientation cyclic: reported elsewhere
	}
	layer := make([]int, n)
	assigned := make([]bool, n)
	var best map[string]int
	found := false
	var rec func(k int, cost int)
	rec = func(k int, cost int) {
		if found {
			return
		}
		// lower bound: each unassigned-incident edge costs at least 1
		if cost >= bound {
			return
		}
		if k == n {
			// remaining cost fully accounted
			found = true
			best = map[string]int{}
			for i, s := range nodes {
				best[s] = layer[i]
			}
			return
		}
		u := order[k]
		lo := 0
		for _, p := range in[u] {
			if layer[p]+1 > lo {
				lo = layer[p] + 1
			}
		}
		for l := lo; l < n; l++ {
			add := 0
			for _, p := range in[u] {
				add += l - layer[p]
			}
			if cost+add >= bound {
				break // cost grows with l
			}
			layer[u] = l
			assigned[u] = true
			rec(k+1, cost+add)
			assigned[u] = false
			if found {
				return
			}
		}
	}
	rec(0, 0)
	return found, best
}

func oracleC10(c Case, out graph.Layout, capped bool) []string {
	var v []string
	lay, ok := layersFromY(c, out)
	if !ok {
		return nil
	}
	comp, ncomp := inputComponents(c)
	es := drawnEdges(out)
	for k := 0; k < ncomp; k++ {
		var nodes []string
		for _, id := range c.NodeIDs() {
			if comp[id] == k {
				nodes = append(nodes, id)
			}
		}
		var ces []drawnEdge
		cost := 0
		feasible := true
		for _, e := range es {
			if comp[e.from] == k {
				ces = append(ces, e)
				span := lay[e.to] - lay[e.from]
				if span < 1 {
					feasible = false
				}
				cost += span
			}
		}
		// contiguous bands, starting at 0
		used := map[int]bool{}
		maxl := 0
		for _, id := range nodes {
			used[lay[id]] = true
			if lay[id] > maxl {
				maxl = lay[id]
			}
		}
		for l := 0; l <= maxl; l++ {
			if !used[l] {
				v = append(v, fmt.Sprintf("component %d: band %d is empty but band %d is used", k, l, maxl))
				break
			}
		}
		if !feasible {
			v = append(v, fmt.Sprintf("component %d: some edge does not span at least one band", k))
			continue
		}
		if capped {
			continue
		}
		if len(nodes) <= 9 {
			if better, wit := existsBetterLayering(nodes, ces, cost); better {
				v = append(v, fmt.Sprintf("component %d: total edge length %d is not minimal; better layering %v", k, cost, wit))
			}
		}
	}
	return v
}

// ---------- C11 ----------

func oracleC11(c Case, out graph.Layout) []string {
	var v []string
	lay, ok := layersFromY(c, out)
	if !ok {
		return nil
	}
	comp, ncomp := inputComponents(c)
	es := drawnEdges(out)
	succ := map[string][]string{}
	for _, e := range es {
		succ[e.from] = append(succ[e.from], e.to)
	}
	height := map[string]int{}
	onstack := map[string]bool{}
	cyclic := false
	var h func(string) int
	h = func(u string) int {
		if x, ok := height[u]; ok {
			return x
		}
		if onstack[u] {
			cyclic = true
			return 0
		}
		onstack[u] = true
		m := 1
		for _, w := range succ[u] {
			if x := h(w) + 1; x > m {
				m = x
			}
		}
		onstack[u] = false
		height[u] = m
		return m
	}
	for _, id := range c.NodeIDs() {
		h(id)
	}
	if cyclic {
		return []string{"the drawn orientation is cyclic"}
	}
	for k := 0; k < ncomp; k++ {
		L := 0
		maxl := 0
		for _, id := range c.NodeIDs() {
			if comp[id] == k {
				if height[id] > L {
					L = height[id]
				}
				if lay[id] > maxl {
					maxl = lay[id]
				}
			}
		}
		if maxl+1 != L {
			v = append(v, fmt.Sprintf("component %d: %d bands, longest path has %d nodes", k, maxl+1, L))
		}
		for _, id := range c.NodeIDs() {
			if comp[id] == k && maxl-lay[id] != height[id]-1 {
				v = append(v, fmt.Sprintf("component %d: node %q is %d bands above the bottom, longest path to a sink has %d edges", k, id, maxl-lay[id], height[id]-1))
			}
		}
	}
	return v
}

// ---------- crossings on the drawing (C12, C13) ----------

// counts pairwise crossings between adjacent bands, from node and bend x-coordinates. Needs polyline (or
// straight with unit spans) routing. Band membership by y.
func drawnCrossings(c Case, out graph.Layout) (int, bool) {
	comp, ncomp := inputComponents(c)
	idx, _ := indexNodes(out)
	type seg struct {
		btop, bbot float64 // y of the band the segment starts / ends in
		xtop, xbot float64
	}
	total := 0
	for k := 0; k < ncomp; k++ {
		// bands of real nodes: y and height
		bandH := map[float64]float64{}
		for _, n := range out.Nodes {
			if kk, ok := comp[n.ID]; ok && kk == k {
				if h, ok := bandH[n.Y]; !ok || n.H > h {
					bandH[n.Y] = n.H
				}
			}
		}
		// the band a bend is drawn in: a band of real nodes that contains its y, else a band of helper nodes only,
		// which has no height, so that the bend's y is the band's y
		bandOf := func(y float64) float64 {
			for by, h := range bandH {
				if by <= y && y <= by+h {
					return by
				}
			}
			return y
		}
		var segs []seg
		for _, e := range out.Edges {
			if e.FromID == e.ToID || comp[e.FromID] != k {
				continue
			}
			f, t := idx[e.FromID], idx[e.ToID]
			upper, lower := f, t
			if lower.Y < upper.Y {
				upper, lower = lower, upper
			}
			ps := e.Points
			if len(ps) < 2 {
				return 0, false
			}
			xs := []float64{upper.X + upper.W/2}
			ys := []float64{upper.Y}
			for i := 1; i < len(ps)-1; i++ {
				xs = append(xs, ps[i][0])
				ys = append(ys, bandOf(ps[i][1]))
			}
			xs = append(xs, lower.X+lower.W/2)
			ys = append(ys, lower.Y)
			for i := 1; i < len(xs); i++ {
				segs = append(segs, seg{ys[i-1], ys[i], xs[i-1], xs[i]})
			}
		}
		for i := 0; i < len(segs); i++ {
			for j := i + 1; j < len(segs); j++ {
				a, b := segs[i], segs[j]
				if a.btop == b.btop && a.bbot == b.bbot {
					if (a.xtop < b.xtop && a.xbot > b.xbot) || (a.xtop > b.xtop && a.xbot < b.xbot) {
						total++
					}
				}
			}
		}
	}
	return total, true
}

// ---------- C14 ----------

func hasCycleDrawn(es []drawnEdge) bool {
	adj := map[string][]string{}
	nodes := map[string]bool{}
	for _, e := range es {
		adj[e.from] = append(adj[e.from], e.to)
		nodes[e.from] = true
		nodes[e.to] = true
	}
	state := map[string]int{}
	var dfs func(string) bool
	dfs = func(u string) bool {
		state[u] = 1
		for _, w := range adj[u] {
			if state[w] == 1 {
				return true
			}
			if state[w] == 0 && dfs(w) {
				return true
			}
		}
		state[u] = 2
		return false
	}
	for u := range nodes {
		if state[u] == 0 && dfs(u) {
			return true
		}
	}
	return false
}

func oracleC14(c Case, out graph.Layout) []string {
	var v []string
	acyclic := isAcyclicInput(c)
	// drawn orientation, keeping track of which output edge each one is
	var es []drawnEdge
	var rev []int
	for i, e := range out.Edges {
		if e.FromID == e.ToID {
			if e.ArrowHeadStart {
				v = append(v, fmt.Sprintf("self-loop #%d flagged ArrowHeadStart", i))
			}
			continue
		}
		if e.ArrowHeadStart {
			if acyclic {
				v = append(v, fmt.Sprintf("acyclic input but edge #%d %q->%q is drawn reversed", i, e.FromID, e.ToID))
			}
			rev = append(rev, len(es))
			es = append(es, drawnEdge{e.ToID, e.FromID})
		} else {
			es = append(es, drawnEdge{e.FromID, e.ToID})
		}
	}
	if c.P1 == "dfs" {
		if hasCycleDrawn(es) {
			v = append(v, "edges as drawn contain a directed cycle")
		}
		for _, k := range rev {
			es[k] = drawnEdge{es[k].to, es[k].from}
			if !hasCycleDrawn(es) {
				v = append(v, fmt.Sprintf("un-reversing %q->%q alone leaves the drawn edges acyclic: the reversed set is not minimal", es[k].from, es[k].to))
			}
			es[k] = drawnEdge{es[k].to, es[k].from}
		}
	}
	return v
}

// ---------- C16 ----------

func oracleC16(c Case, out graph.Layout) []string {
	var v []string
	if c.P4 != "valign" && c.P4 != "packright" {
		return nil
	}
	_, ncomp := inputComponents(c)
	if ncomp != 1 || !c.VirtualOut {
		return nil
	}
	byY := map[float64][]graph.Node{}
	for _, n := range out.Nodes {
		byY[n.Y] = append(byY[n.Y], n)
	}
	minX := math.Inf(1)
	var mids, rights []float64
	for y, ns := range byY {
		sort.SliceStable(ns, func(i, j int) bool { return ns[i].X < ns[j].X })
		sumw := 0.0
		lo, hi := math.Inf(1), math.Inf(-1)
		for _, n := range ns {
			sumw += n.W
			lo = math.Min(lo, n.X)
			hi = math.Max(hi, n.X+n.W)
		}
		want := sumw + c.NodeSpacing*float64(len(ns)-1)
		if hi-lo != want {
			v = append(v, fmt.Sprintf("band y=%v: extent %v, want sum of widths + spacing = %v", y, hi-lo, want))
		}
		minX = math.Min(minX, lo)
		mids = append(mids, (lo+hi)/2)
		rights = append(rights, hi)
	}
	if minX != 0 {
		v = append(v, fmt.Sprintf("leftmost node is at x=%v, want 0", minX))
	}
	if c.P4 == "valign" {
		for _, m := range mids {
			if m != mids[0] {
				v = append(v, fmt.Sprintf("VAlign: band midpoints differ: %v", mids))
				break
			}
		}
	} else {
		for _, m := range rights {
			if m != rights[0] {
				v = append(v, fmt.Sprintf("PackRight: band right ends differ: %v", rights))
				break
			}
		}
	}
	return v
}

// ---------- C17 ----------

func scaleCase(c Case, f float64) Case {
	d := c
	d.FixedW *= f
	d.FixedH *= f
	d.NodeSpacing *= f
	d.LayerSpacing *= f
	if c.Sizes != nil {
		d.Sizes = map[string][2]float64{}
		for k, s := range c.Sizes {
			d.Sizes[k] = [2]float64{s[0] * f, s[1] * f}
		}
	}
	return d
}

func oracleC17(c Case, out graph.Layout, f float64) []string {
	var v []string
	out2, err := runLayout(scaleCase(c, f))
	if err != nil {
		return []string{"scaled input fails: " + firstLines(err.Error(), 3)}
	}
	if len(out.Nodes) != len(out2.Nodes) || len(out.Edges) != len(out2.Edges) {
		return []string{"scaled run has a different number of nodes or edges"}
	}
	for i := range out.Nodes {
		a, b := out.Nodes[i], out2.Nodes[i]
		if a.ID != b.ID || a.X*f != b.X || a.Y*f != b.Y || a.W*f != b.W || a.H*f != b.H {
			v = append(v, fmt.Sprintf("node #%d %q: %+v scaled by %v is not %+v", i, a.ID, a.Size, f, b.Size))
		}
	}
	for i := range out.Edges {
		a, b := out.Edges[i], out2.Edges[i]
		same := a.FromID == b.FromID && a.ToID == b.ToID && a.ArrowHeadStart == b.ArrowHeadStart && len(a.Points) == len(b.Points)
		if same {
			for j := range a.Points {
				if a.Points[j][0]*f != b.Points[j][0] || a.Points[j][1]*f != b.Points[j][1] {
					same = false
				}
			}
		}
		if !same {
			v = append(v, fmt.Sprintf("edge #%d %q->%q: points %v scaled by %v are not %v", i, a.FromID, a.ToID, a.Points, f, b.Points))
		}
	}
	return v
}
