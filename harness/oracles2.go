package main

import (
	"fmt"
	"reflect"
	"sync"

	"github.com/nulab/autog"
	"github.com/nulab/autog/graph"
)

// ---------- C18: scripted histories around a case ----------

type recMonitor struct {
	id     int
	clock  *int // index of the Layout call currently running (-1 between calls)
	events []int
	budget int // > 0: Log panics on every call after the first budget-1 calls (a monitor that aborts a run)
}

func (m *recMonitor) Log(phase int, alg, key string, val any) {
	m.events = append(m.events, *m.clock)
	if m.budget > 0 && len(m.events) >= m.budget {
		panic("monitor: event budget exceeded")
	}
}

func layoutWith(c Case, mon *recMonitor) (out graph.Layout, panicked bool) {
	defer func() {
		if r := recover(); r != nil {
			panicked = true
		}
	}()
	src := graph.EdgeSlice(cloneEdges(c.Edges))
	opts := caseOptions(c)
	if mon != nil {
		opts = append(opts, autog.WithMonitor(mon))
	}
	return autog.Layout(src, opts...), false
}

// history: monitored call, call that panics with a monitor, unmonitored call, monitored call, unmonitored call;
// every monitor must have heard only from its own call, and all successful calls must return the same layout
func oracleC18(c Case, r *Rng) []string {
	var v []string
	clock := -1
	bad := c
	switch r.Intn(3) {
	case 0:
		bad.Edges = [][]string{} // "node set is empty"
	case 1:
		bad.Edges = append(cloneEdges(c.Edges), []string{"x"}) // wrong arity: Populate panics
	default:
		bad.Edges = append(cloneEdges(c.Edges), []string{"x", "y", "z"})
	}
	type call struct {
		c     Case
		mon   bool
		wantP bool
	}
	script := []call{{c, true, false}, {bad, true, true}, {c, false, false}, {c, true, false}, {bad, false, true}, {c, false, false}}
	var mons []*recMonitor
	var outs []graph.Layout
	for i, s := range script {
		var m *recMonitor
		if s.mon {
			m = &recMonitor{id: i, clock: &clock}
		}
		mons = append(mons, m)
		clock = i
		out, p := layoutWith(s.c, m)
		clock = -1
		if p != s.wantP {
			v = append(v, fmt.Sprintf("call %d: panicked=%v, expected %v", i, p, s.wantP))
		}
		if !p {
			outs = append(outs, out)
		}
	}
	// a monitor whose Log panics once its budget is used up (and on every later event): the call it was passed to
	// ends in a panic, and the calls after it must not reach that monitor
	if n0 := len(mons[0].events); n0 > 0 {
		k := 1 + r.Intn(n0)
		bm := &recMonitor{id: len(script), clock: &clock, budget: k}
		i := len(script)
		clock = i
		_, p := layoutWith(c, bm)
		clock = -1
		if !p {
			v = append(v, fmt.Sprintf("call %d: a monitor that panics at its event %d of %d did not make Layout panic", i, k, n0))
		}
		script = append(script, call{c, true, true})
		mons = append(mons, bm)
		for j := 0; j < 2; j++ {
			clock = len(script)
			out, p := layoutWith(c, nil)
			clock = -1
			script = append(script, call{c, false, false})
			mons = append(mons, nil)
			if p {
				v = append(v, fmt.Sprintf("call %d (no monitor) panicked after a call whose monitor had panicked", len(script)-1))
			} else {
				outs = append(outs, out)
			}
		}
	}
	for i, m := range mons {
		if m == nil {
			continue
		}
		for _, at := range m.events {
			if at != i {
				v = append(v, fmt.Sprintf("the monitor passed to call %d received an event while call %d was running (-1: between calls)", i, at))
				break
			}
		}
		if !script[i].wantP && len(c.Edges) > 1 && len(m.events) == 0 && len(c.NodeIDs()) > 1 {
			// not a violation of C18 as stated; recorded so that an all-silent monitor does not go unnoticed
			_ = m
		}
	}
	for i := 1; i < len(outs); i++ {
		if !reflect.DeepEqual(outs[0], outs[i]) {
			v = append(v, fmt.Sprintf("layouts with and without monitor differ: %s", diffLayouts(outs[0], outs[i])))
			break
		}
	}
	return v
}

// ---------- C15: concurrent calls on independent sources ----------

func oracleC15(c Case, r *Rng) []string {
	const workers = 8
	cases := make([]Case, workers)
	for i := range cases {
		d := c
		d.Edges = cloneEdges(c.Edges)
		// independent sources, different shapes: drop a different edge in each copy
		if len(d.Edges) > 2 {
			k := r.Intn(len(d.Edges))
			d.Edges = append(d.Edges[:k:k], d.Edges[k+1:]...)
		}
		// and different option sets, so that state leaking from one call into another shows in the result
		d.P1 = []string{"greedy", "dfs"}[r.Intn(2)]
		d.P2 = []string{"ns", "lp"}[r.Intn(2)]
		d.P4 = []string{"sink", "valign", "packright", "bk"}[r.Intn(4)]
		d.P5 = []string{"polyline", "straight", "ortho"}[r.Intn(3)]
		cases[i] = d
	}
	ref := make([]graph.Layout, workers)
	for i := range cases {
		out, err := runLayout(cases[i])
		if err != nil {
			return []string{"Layout did not return: " + firstLines(err.Error(), 6)}
		}
		ref[i] = out
	}
	got := make([]graph.Layout, workers)
	errs := make([]error, workers)
	var wg sync.WaitGroup
	start := make(chan struct{})
	for i := range cases {
		wg.Add(1)
		go func(i int) {
			defer wg.Done()
			<-start
			for k := 0; k < 3; k++ {
				got[i], errs[i] = runLayout(cases[i])
			}
		}(i)
	}
	close(start)
	wg.Wait()
	var v []string
	for i := range cases {
		if errs[i] != nil {
			v = append(v, fmt.Sprintf("concurrent call %d failed: %s", i, firstLines(errs[i].Error(), 4)))
		} else if !reflect.DeepEqual(ref[i], got[i]) {
			v = append(v, fmt.Sprintf("concurrent call %d differs from the same call run alone: %s", i, diffLayouts(ref[i], got[i])))
		}
	}
	if len(v) > 0 {
		return v
	}
	// the same calls once more, now with Option VALUES that all goroutines share (a caller builds its options once
	// and reuses them): one WithNodeSize value for a partial size map, one routing and one positioning value; what
	// differs per call is the source and a fixed size given as a fresh option. An Option that keeps state between the
	// calls it is applied in shows here.
	partial := map[string]graph.Size{}
	ids := c.NodeIDs()
	for i, id := range ids {
		if i%2 == 0 {
			partial[id] = graph.Size{W: float64(8 * (1 + i%5)), H: float64(8 * (1 + i%3))}
		}
	}
	shared := []autog.Option{autog.WithNodeSize(partial), autog.WithEdgeRouting(autog.EdgeRoutingPolyline),
		autog.WithPositioning(autog.PositioningSinkColoring), autog.WithNodeSpacing(16), autog.WithLayerSpacing(24)}
	call := func(i int) (out graph.Layout, err error) {
		defer func() {
			if rec := recover(); rec != nil {
				err = fmt.Errorf("panic: %v", rec)
			}
		}()
		opts := append([]autog.Option{autog.WithNodeFixedSize(float64(8*(i+2)), float64(8*(i+1)))}, shared...)
		return autog.Layout(graph.EdgeSlice(cloneEdges(cases[i].Edges)), opts...), nil
	}
	for i := range cases {
		if ref[i], errs[i] = call(i); errs[i] != nil {
			return []string{"Layout did not return: " + firstLines(errs[i].Error(), 6)}
		}
	}
	start = make(chan struct{})
	for i := range cases {
		wg.Add(1)
		go func(i int) {
			defer wg.Done()
			<-start
			for k := 0; k < 3; k++ {
				got[i], errs[i] = call(i)
			}
		}(i)
	}
	close(start)
	wg.Wait()
	for i := range cases {
		if errs[i] != nil {
			v = append(v, fmt.Sprintf("concurrent call %d (shared option values) failed: %s", i, firstLines(errs[i].Error(), 4)))
		} else if !reflect.DeepEqual(ref[i], got[i]) {
			v = append(v, fmt.Sprintf("concurrent call %d (shared option values) differs from the same call run alone: %s", i, diffLayouts(ref[i], got[i])))
		}
	}
	return v
}
