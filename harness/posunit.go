//go:build verif

package main

import (
	"fmt"
	"os"
	"strings"

	"github.com/nulab/autog"
	"github.com/nulab/autog/graph"
)

// Unit correspondence of the positioners (phase 4) on SYNTHETIC proper layerings: shapes the pipeline generators
// reach very rarely — tall, narrow components whose long edges zig-zag across the bands (many rounds of the
// overlap-removal loop of SinkColoring), very unequal widths, helper nodes at the ends of bands.

type posCase struct {
	Fn      string                `json:"fn"`
	Alg     string                `json:"alg"`
	BK      int                   `json:"bk"`
	Edges   [][]string            `json:"edges"`
	Layers  map[string]int        `json:"layers"`
	Sizes   map[string][2]float64 `json:"sizes"`
	Virtual map[string]bool       `json:"virtual"`
	NS      float64               `json:"node_spacing"`
	LS      float64               `json:"layer_spacing"`
	Overlap string                `json:"overlap,omitempty"` // what the implementation's result does to C04, if anything
	Panic   string                `json:"panic,omitempty"`
}

func genPosCase(r *Rng, alg string) posCase {
	c := posCase{Fn: "pos", Alg: alg, BK: -1, Layers: map[string]int{}, Sizes: map[string][2]float64{}, Virtual: map[string]bool{}}
	if alg == "bk" {
		c.BK = r.Intn(6) - 1 // -1 balanced, 0..3 forced, 4 out of range = balanced
	}
	if alg != "ns" && r.Bool(35) {
		return genStaircase(r, c)
	}
	nl := 2 + r.Intn(4)
	maxw := 1 + r.Intn(5)
	if r.Bool(50) { // tall and narrow
		nl = 5 + r.Intn(8)
		maxw = 2 + r.Intn(2)
	}
	if alg == "ns" { // the positioner's cost grows quickly
		nl = 2 + r.Intn(3)
		maxw = 1 + r.Intn(3)
	}
	widths := make([]int, nl)
	for i := range widths {
		widths[i] = 1 + r.Intn(maxw)
	}
	name := func(l, i int) string { return fmt.Sprintf("n%d_%d", l, i) }
	indeg, outdeg := map[string]int{}, map[string]int{}
	seen := map[[2]string]bool{}
	var es [][]string
	add := func(a, b string) {
		if seen[[2]string{a, b}] {
			return
		}
		seen[[2]string{a, b}] = true
		es = append(es, []string{a, b})
		outdeg[a]++
		indeg[b]++
	}
	zig := r.Bool(60)
	for l := 0; l+1 < nl; l++ {
		for i := 0; i < widths[l]; i++ {
			j := r.Intn(widths[l+1])
			if zig && r.Bool(70) { // far end of the next band, alternating
				j = 0
				if (l+i)%2 == 0 {
					j = widths[l+1] - 1
				}
			}
			add(name(l, i), name(l+1, j))
		}
		for j := 0; j < widths[l+1]; j++ {
			if indeg[name(l+1, j)] == 0 {
				add(name(l, r.Intn(widths[l])), name(l+1, j))
			}
		}
		for k := r.Intn(2); k > 0; k-- {
			add(name(l, r.Intn(widths[l])), name(l+1, r.Intn(widths[l+1])))
		}
	}
	for _, j := range r.Perm(len(es)) {
		c.Edges = append(c.Edges, es[j])
	}
	grains := []float64{8, 8, 0.25, 8.0 / (1 << 30), 8 * (1 << 20)} // also very small and very large units (C17)
	g := grains[r.Intn(len(grains))]
	wide := r.Bool(50)
	for l := 0; l < nl; l++ {
		for i := 0; i < widths[l]; i++ {
			id := name(l, i)
			c.Layers[id] = l
			// a helper node of a long edge: one edge in, one edge out, no size
			if l > 0 && l+1 < nl && indeg[id] == 1 && outdeg[id] == 1 && r.Bool(60) {
				c.Virtual[id] = true
				c.Sizes[id] = [2]float64{0, 0}
				continue
			}
			w := g * float64(r.Intn(12))
			if wide && r.Bool(40) {
				w = g * float64(20+r.Intn(30))
			}
			c.Sizes[id] = [2]float64{w, g * float64(r.Intn(8))}
		}
	}
	c.NS = g * float64(r.Intn(5))
	c.LS = g * float64(r.Intn(6))
	return c
}

// a staircase of blocks: block i is a vertical chain from band i down to band i+span-1, and in every band the lower
// part of one block sits left of the top of the next one. A push found in one band reaches the next band only
// after the next alignment, so the overlap-removal loop of SinkColoring needs about one round per block while
// the bands stay short.
func genStaircase(r *Rng, c posCase) posCase {
	blocks := 3 + r.Intn(6)
	span := 2 + r.Intn(2)
	g := []float64{8, 8, 0.25, 8.0 / (1 << 30)}[r.Intn(4)]
	var es [][]string
	perLayer := map[int][]string{}
	for b := 0; b < blocks; b++ {
		w := g * float64(1+r.Intn(14))
		virt := r.Bool(40)
		prev := ""
		for k := 0; k < span; k++ {
			l := b + k
			id := fmt.Sprintf("b%d_%d", b, k)
			c.Layers[id] = l
			if virt && k > 0 && k+1 < span {
				c.Virtual[id] = true
				c.Sizes[id] = [2]float64{0, 0}
			} else {
				c.Sizes[id] = [2]float64{w, g * float64(r.Intn(6))}
				if r.Bool(30) {
					c.Sizes[id] = [2]float64{g * float64(r.Intn(14)), g * float64(r.Intn(6))}
				}
			}
			perLayer[l] = append(perLayer[l], id)
			if prev != "" {
				es = append(es, []string{prev, id})
			}
			prev = id
		}
	}
	// the order of first appearance in the edge list is the order in the band: list the bands' nodes left to right
	// (older blocks first) by emitting, band by band, an edge that mentions each node
	first := map[string]bool{}
	var ordered [][]string
	maxl := blocks + span - 2
	for l := 0; l <= maxl; l++ {
		for _, id := range perLayer[l] {
			for _, e := range es {
				if (e[0] == id || e[1] == id) && !first[e[0]+">"+e[1]] {
					// an edge may only be emitted once all nodes left of its ends in their bands are known
					first[e[0]+">"+e[1]] = true
					ordered = append(ordered, e)
				}
			}
		}
	}
	c.Edges = ordered
	if r.Bool(40) { // a few extra edges between neighbouring bands
		for k := 1 + r.Intn(3); k > 0; k-- {
			l := r.Intn(maxl)
			a, b := perLayer[l][r.Intn(len(perLayer[l]))], perLayer[l+1][r.Intn(len(perLayer[l+1]))]
			dup := false
			for _, e := range c.Edges {
				if e[0] == a && e[1] == b {
					dup = true
				}
			}
			if !dup && !c.Virtual[a] && !c.Virtual[b] {
				c.Edges = append(c.Edges, []string{a, b})
			}
		}
	}
	c.NS = g * float64(r.Intn(4))
	c.LS = g * float64(r.Intn(6))
	return c
}

// does the result keep nodes of a band NodeSpacing apart, in order (C04)? only for the size-aware positioners
func posOverlap(c posCase, a autog.VerifSnap) string {
	if c.Alg == "bk" {
		return ""
	}
	for _, l := range a.Layers {
		for k := 1; k < len(l.Nodes); k++ {
			p, q := a.Nodes[l.Nodes[k-1]], a.Nodes[l.Nodes[k]]
			if q.X < p.X+p.W+c.NS {
				return fmt.Sprintf("nodes %s [x %v, w %v] and %s [x %v] of one band are %v apart, NodeSpacing is %v", p.ID, p.X, p.W, q.ID, q.X, q.X-p.X-p.W, c.NS)
			}
		}
	}
	for _, n := range a.Nodes {
		if n.X < 0 {
			return fmt.Sprintf("node %s has x = %v", n.ID, n.X)
		}
	}
	return ""
}

func runPosUnit(alg string, seed uint64, n int, outDir string) int {
	r := NewRng(seed)
	os.MkdirAll(outDir, 0o755)
	code := map[string]int{"sink": 1, "valign": 2, "packright": 3, "ns": 4, "bk": 5}[alg]
	var cases []posCase
	var shard strings.Builder
	nshard, inShard := 0, 0
	flush := func() {
		if inShard == 0 {
			return
		}
		src := "From Autog Require Import Check.\nDefinition q (n : Z) (d : positive) : Q := Qmake n d.\nDefinition punits : list (nat * (nat * Z * Q * Q * graph * graph)) := [\n" +
			shard.String() + "].\nDefinition U := Eval vm_compute in pos_failing punits.\nPrint U.\n"
		os.WriteFile(fmt.Sprintf("%s/unit_%03d.v", outDir, nshard), []byte(src), 0o644)
		nshard++
		inShard = 0
		shard.Reset()
	}
	for i := 0; i < n; i++ {
		c := genPosCase(r, alg)
		var b, a autog.VerifSnap
		func() {
			defer func() {
				if rec := recover(); rec != nil {
					c.Panic = fmt.Sprint(rec)
				}
			}()
			b, a = autog.VerifPosition(alg, graph.EdgeSlice(c.Edges), c.Layers, c.Sizes, c.Virtual, c.NS, c.LS, c.BK)
		}()
		if c.Panic == "" {
			c.Overlap = posOverlap(c, a)
			if inShard > 0 {
				shard.WriteString(";\n")
			}
			fmt.Fprintf(&shard, " (%d%%nat, (%d%%nat, %s, %s, %s, %s, %s))", i, code, zlit(c.BK), qlit(c.NS), qlit(c.LS), graphLit(b), graphLit(a))
			inShard++
			if inShard >= 25 {
				flush()
			}
		}
		cases = append(cases, c)
	}
	flush()
	writeJSON(outDir+"/units.json", cases)
	fmt.Printf("unit pos-%s: %d cases into %d shards\n", alg, len(cases), nshard)
	return 0
}

// ---------- a positioner followed by a router ----------

// what the routes of the result do to C05 (end points) and C06 (shape)
func routeProblems(route string, a autog.VerifSnap) (c05, c06 string) {
	for _, ei := range a.GE {
		e := a.Edges[ei]
		f, t := a.Nodes[e.From], a.Nodes[e.To]
		if f.Virtual || t.Virtual || e.From == e.To {
			continue
		}
		u, l := f, t
		if t.Layer < f.Layer {
			u, l = t, f
		}
		ps := e.Points
		if len(ps) < 2 {
			c05 = fmt.Sprintf("edge %s->%s has %d points", f.ID, t.ID, len(ps))
			continue
		}
		if ps[0] != [2]float64{u.X + u.W/2, u.Y + u.H} || ps[len(ps)-1] != [2]float64{l.X + l.W/2, l.Y} {
			c05 = fmt.Sprintf("edge %s->%s runs from %v to %v, want bottom-centre %v of %s and top-centre %v of %s", f.ID, t.ID, ps[0], ps[len(ps)-1],
				[2]float64{u.X + u.W/2, u.Y + u.H}, u.ID, [2]float64{l.X + l.W/2, l.Y}, l.ID)
		}
		switch route {
		case "straight":
			if len(ps) != 2 {
				c06 = fmt.Sprintf("straight edge %s->%s has %d points", f.ID, t.ID, len(ps))
			}
		case "polyline":
			if len(ps) != l.Layer-u.Layer+1 {
				c06 = fmt.Sprintf("polyline edge %s->%s spans %d bands and has %d points", f.ID, t.ID, l.Layer-u.Layer, len(ps))
			}
			for k := 1; k < len(ps); k++ {
				if ps[k][1] < ps[k-1][1] {
					c06 = fmt.Sprintf("polyline edge %s->%s goes upward at %v", f.ID, t.ID, ps[k])
				}
			}
		case "ortho":
			for k := 1; k < len(ps); k++ {
				if ps[k][0] != ps[k-1][0] && ps[k][1] != ps[k-1][1] {
					c06 = fmt.Sprintf("ortho edge %s->%s: segment %v -> %v is neither horizontal nor vertical", f.ID, t.ID, ps[k-1], ps[k])
				}
			}
		}
	}
	return
}

// the edge list as phase 3 leaves it: the pieces of a broken long edge other than the first come after all other
// edges, chain by chain (mergeLongEdges removes them from the list while it ranges over it, which skips
// entries when they are interleaved with the others; the pipeline never produces such a list)
func pipelineEdgeOrder(c *posCase) {
	var heads, tails [][]string
	out := map[string][]string{}
	for _, e := range c.Edges {
		if c.Virtual[e[0]] {
			out[e[0]] = e
		} else {
			heads = append(heads, e)
		}
	}
	for _, e := range heads {
		for v := e[1]; c.Virtual[v]; {
			f := out[v]
			tails = append(tails, f)
			v = f[1]
		}
	}
	c.Edges = append(heads, tails...)
}

type routeCase struct {
	posCase
	Route string `json:"route"`
	C05   string `json:"c05,omitempty"`
	C06   string `json:"c06,omitempty"`
}

func runRouteUnit(spec string, seed uint64, n int, outDir string) int {
	parts := strings.SplitN(spec, "-", 2) // <positioner>-<router>
	if len(parts) != 2 {
		return 2
	}
	alg, route := parts[0], parts[1]
	r := NewRng(seed)
	os.MkdirAll(outDir, 0o755)
	code := map[string]int{"sink": 1, "valign": 2, "packright": 3, "ns": 4, "bk": 5}[alg]
	rcode := map[string]int{"straight": 1, "polyline": 2, "ortho": 3}[route]
	var cases []routeCase
	var shard strings.Builder
	nshard, inShard := 0, 0
	flush := func() {
		if inShard == 0 {
			return
		}
		src := "From Autog Require Import Check.\nDefinition q (n : Z) (d : positive) : Q := Qmake n d.\nDefinition runits : list (nat * (nat * Z * nat * Q * Q * graph * graph)) := [\n" +
			shard.String() + "].\nDefinition U := Eval vm_compute in route_failing runits.\nPrint U.\n"
		os.WriteFile(fmt.Sprintf("%s/unit_%03d.v", outDir, nshard), []byte(src), 0o644)
		nshard++
		inShard = 0
		shard.Reset()
	}
	for i := 0; i < n; i++ {
		c := routeCase{posCase: genPosCase(r, alg), Route: route}
		c.Fn = "route"
		pipelineEdgeOrder(&c.posCase)
		var b, a autog.VerifSnap
		func() {
			defer func() {
				if rec := recover(); rec != nil {
					c.Panic = fmt.Sprint(rec)
				}
			}()
			b, a = autog.VerifRoute(alg, route, graph.EdgeSlice(c.Edges), c.Layers, c.Sizes, c.Virtual, c.NS, c.LS, c.BK)
		}()
		if c.Panic == "" {
			c.Overlap = posOverlap(c.posCase, a)
			c.C05, c.C06 = routeProblems(route, a)
			if inShard > 0 {
				shard.WriteString(";\n")
			}
			fmt.Fprintf(&shard, " (%d%%nat, (%d%%nat, %s, %d%%nat, %s, %s, %s, %s))", i, code, zlit(c.BK), rcode, qlit(c.NS), qlit(c.LS), graphLit(b), graphLit(a))
			inShard++
			if inShard >= 25 {
				flush()
			}
		}
		cases = append(cases, c)
	}
	flush()
	writeJSON(outDir+"/units.json", cases)
	fmt.Printf("unit route-%s: %d cases into %d shards\n", spec, len(cases), nshard)
	return 0
}

// ---------- the ordering phase ----------

type orderCase struct {
	Fn       string         `json:"fn"`
	Edges    [][]string     `json:"edges"`
	Layers   map[string]int `json:"layers"`
	Reported []int          `json:"reported"`
	Counted  int            `json:"counted"` // crossings of the installed order, counted naively
	GoOnly   bool           `json:"go_only,omitempty"`
	Panic    string         `json:"panic,omitempty"`
}

func genOrderCase(r *Rng) orderCase {
	c := orderCase{Fn: "order", Layers: map[string]int{}}
	nl := 2 + r.Intn(5)
	maxw := 2 + r.Intn(5)
	if r.Bool(25) {
		nl = 8 + r.Intn(12)
		maxw = 2 + r.Intn(2)
	}
	widths := make([]int, nl)
	for i := range widths {
		widths[i] = 1 + r.Intn(maxw)
	}
	name := func(l, i int) string { return fmt.Sprintf("n%d_%d", l, i) }
	seen := map[[2]string]bool{}
	indeg := map[string]int{}
	var es [][]string
	add := func(a, b string) {
		if seen[[2]string{a, b}] {
			return
		}
		seen[[2]string{a, b}] = true
		es = append(es, []string{a, b})
		indeg[b]++
	}
	for l := 0; l+1 < nl; l++ {
		for i := 0; i < widths[l]; i++ {
			add(name(l, i), name(l+1, r.Intn(widths[l+1])))
		}
		for j := 0; j < widths[l+1]; j++ {
			if indeg[name(l+1, j)] == 0 {
				add(name(l, r.Intn(widths[l])), name(l+1, j))
			}
		}
		for k := r.Intn(1 + widths[l]); k > 0; k-- {
			add(name(l, r.Intn(widths[l])), name(l+1, r.Intn(widths[l+1])))
		}
	}
	if r.Bool(40) { // long edges too: the phase breaks them itself
		for k := 1 + r.Intn(3); k > 0 && nl > 2; k-- {
			a := r.Intn(nl - 2)
			b := a + 2 + r.Intn(nl-a-2)
			add(name(a, r.Intn(widths[a])), name(b, r.Intn(widths[b])))
		}
	}
	for _, j := range r.Perm(len(es)) {
		c.Edges = append(c.Edges, es[j])
	}
	for l := 0; l < nl; l++ {
		for i := 0; i < widths[l]; i++ {
			c.Layers[name(l, i)] = l
		}
	}
	return c
}

func runOrderUnit(seed uint64, n int, outDir string) int {
	r := NewRng(seed)
	os.MkdirAll(outDir, 0o755)
	var cases []orderCase
	var shard strings.Builder
	nshard, inShard := 0, 0
	flush := func() {
		if inShard == 0 {
			return
		}
		src := "From Autog Require Import Check.\nDefinition q (n : Z) (d : positive) : Q := Qmake n d.\nDefinition ounits : list (nat * (graph * graph * list Z)) := [\n" +
			shard.String() + "].\nDefinition U := Eval vm_compute in order_failing ounits.\nPrint U.\n"
		os.WriteFile(fmt.Sprintf("%s/unit_%03d.v", outDir, nshard), []byte(src), 0o644)
		nshard++
		inShard = 0
		shard.Reset()
	}
	for i := 0; i < n; i++ {
		c := genOrderCase(r)
		var b, a autog.VerifSnap
		func() {
			defer func() {
				if rec := recover(); rec != nil {
					c.Panic = fmt.Sprint(rec)
				}
			}()
			b, a, c.Reported = autog.VerifOrder(graph.EdgeSlice(c.Edges), c.Layers)
		}()
		if c.Panic == "" {
			c.Counted = naiveCrossingsIn(a)
			var rs []string
			for _, x := range c.Reported {
				rs = append(rs, zlit(x))
			}
			if inShard > 0 {
				shard.WriteString(";\n")
			}
			fmt.Fprintf(&shard, " (%d%%nat, (%s, %s, [%s]))", i, graphLit(b), graphLit(a), strings.Join(rs, ";"))
			inShard++
			if inShard >= 6 {
				flush()
			}
		}
		cases = append(cases, c)
	}
	flush()
	// volume: the kernel re-computes the whole heuristic on the cases above; many more layerings are run through the
	// implementation alone and judged by what they report against a naive count on the order they install
	// (an order touched after the count was taken shows up here); only the disagreeing ones are kept
	extra, bad := 150*n, 0
	for i := 0; i < extra && bad < 3; i++ {
		c := genOrderCase(r)
		var a autog.VerifSnap
		func() {
			defer func() {
				if rec := recover(); rec != nil {
					c.Panic = fmt.Sprint(rec)
				}
			}()
			_, a, c.Reported = autog.VerifOrder(graph.EdgeSlice(c.Edges), c.Layers)
		}()
		if c.Panic == "" {
			c.Counted = naiveCrossingsIn(a)
			sum := 0
			for _, x := range c.Reported {
				sum += x
			}
			if len(c.Reported) == 0 || sum == c.Counted {
				continue
			}
		}
		bad++
		c.GoOnly = true
		cases = append(cases, c)
	}
	writeJSON(outDir+"/units.json", cases)
	fmt.Printf("unit order: %d cases into %d shards, %d more through the implementation alone\n", len(cases), nshard, extra)
	return 0
}

// crossings between adjacent bands among the edges of the graph's edge list (after long edges were broken)
func naiveCrossingsIn(st autog.VerifSnap) int {
	type pp struct{ l, u, v int }
	seen := map[pp]bool{}
	var ps []pp
	for _, ei := range st.GE {
		e := st.Edges[ei]
		f, t := st.Nodes[e.From], st.Nodes[e.To]
		if f.Layer > t.Layer {
			f, t = t, f
		}
		if t.Layer != f.Layer+1 {
			continue
		}
		p := pp{f.Layer, f.LayerPos, t.LayerPos}
		if !seen[p] {
			seen[p] = true
			ps = append(ps, p)
		}
	}
	n := 0
	for a := 0; a < len(ps); a++ {
		for b := a + 1; b < len(ps); b++ {
			if ps[a].l == ps[b].l && (ps[a].u-ps[b].u)*(ps[a].v-ps[b].v) < 0 {
				n++
			}
		}
	}
	return n
}
