//go:build verif

package main

import (
	"fmt"
	"os"
	"strings"

	"github.com/nulab/autog"
	"github.com/nulab/autog/graph"
)

// Unit correspondence of the positioners (phase 4) on SYNTHETIC proper layerings: shapes the pipeline generators
// reach very rarely — tall, narrow components whose long edges zig-zag across the bands (many rounds of the
// overlap-removal loop of SinkColoring), very unequal widths, helper nodes at the ends of bands.

type posCase struct {
	Fn      string                `json:"fn"`
	Alg     string                `json:"alg"`
	BK      int                   `json:"bk"`
	Edges   [][]string            `json:"edges"`
	Layers  map[string]int        `json:"layers"`
	Sizes   map[string][2]float64 `json:"sizes"`
	Virtual map[string]bool       `json:"virtual"`
	NS      float64               `json:"node_spacing"`
	LS      float64               `json:"layer_spacing"`
	Overlap string                `json:"overlap,omitempty"` // what the implementation's result does to C04, if anything
	Panic   string                `json:"panic,omitempty"`
}

func genPosCase(r *Rng, alg string) posCase {
	c := posCase{Fn: "pos", Alg: alg, BK: -1, Layers: map[string]int{}, Sizes: map[string][2]float64{}, Virtual: map[string]bool{}}
	if alg == "bk" {
		c.BK = r.Intn(6) - 1 // -1 balanced, 0..3 forced, 4 out of range = balanced
	}
	if alg != "ns" && r.Bool(35) {
		return genStaircase(r, c)
	}
	nl := 2 + r.Intn(4)
	maxw := 1 + r.Intn(5)
	if r.Bool(50) { // tall and narrow
		nl = 5 + r.Intn(8)
		maxw = 2 + r.Intn(2)
	}
	if alg == "ns" { // the positioner's cost grows quickly
		nl = 2 + r.Intn(3)
		maxw = 1 + r.Intn(3)
	}
	widths := make([]int, nl)
	for i := range widths {
		widths[i] = 1 + r.Intn(maxw)
	}
	name := func(l, i int) string { return fmt.Sprintf("n%d_%d", l, i) }
	indeg, outdeg := map[string]int{}, map[string]int{}
	seen := map[[2]string]bool{}
	var es [][]string
	add := func(a, b string) {
		if seen[[2]string{a, b}] {
			return
		}
		seen[[2]string{a, b}] = true
		es = append(es, []string{a, b})
		outdeg[a]++
		indeg[b]++
	}
	zig := r.Bool(60)
	for l := 0; l+1 < nl; l++ {
		for i := 0; i < widths[l]; i++ {
			j := r.Intn(widths[l+1])
			if zig && r.Bool(70) { // far end of the next band, alternating
				j = 0
				if (l+i)%2 == 0 {
					j = widths[l+1] - 1
				}
			}
			add(name(l, i), name(l+1, j))
		}
		for j := 0; j < widths[l+1]; j++ {
			if indeg[name(l+1, j)] == 0 {
				add(name(l, r.Intn(widths[l])), name(l+1, j))
			}
		}
		for k := r.Intn(2); k > 0; k-- {
			add(name(l, r.Intn(widths[l])), name(l+1, r.Intn(widths[l+1])))
		}
	}
	for _, j := range r.Perm(len(es)) {
		c.Edges = append(c.Edges, es[j])
	}
	grains := []float64{8, 8, 0.25}
	g := grains[r.Intn(len(grains))]
	wide := r.Bool(50)
	for l := 0; l < nl; l++ {
		for i := 0; i < widths[l]; i++ {
			id := name(l, i)
			c.Layers[id] = l
			// a helper node of a long edge: one edge in, one edge out, no size
			if l > 0 && l+1 < nl && indeg[id] == 1 && outdeg[id] == 1 && r.Bool(60) {
				c.Virtual[id] = true
				c.Sizes[id] = [2]float64{0, 0}
				continue
			}
			w := g * float64(r.Intn(12))
			if wide && r.Bool(40) {
				w = g * float64(20+r.Intn(30))
			}
			c.Sizes[id] = [2]float64{w, g * float64(r.Intn(8))}
		}
	}
	c.NS = g * float64(r.Intn(5))
	c.LS = g * float64(r.Intn(6))
	return c
}

// a staircase of blocks: block i is a vertical chain from band i down to band i+span-1, and in every band the lower
// part of one block sits left of the top of the next one. A push found in one band reaches the next band only
// after the next alignment, so the overlap-removal loop of SinkColoring needs about one round per block while
// the bands stay short.
func genStaircase(r *Rng, c posCase) posCase {
	blocks := 3 + r.Intn(6)
	span := 2 + r.Intn(2)
	g := []float64{8, 8, 0.25}[r.Intn(3)]
	var es [][]string
	perLayer := map[int][]string{}
	for b := 0; b < blocks; b++ {
		w := g * float64(1+r.Intn(14))
		virt := r.Bool(40)
		prev := ""
		for k := 0; k < span; k++ {
			l := b + k
			id := fmt.Sprintf("b%d_%d", b, k)
			c.Layers[id] = l
			if virt && k > 0 && k+1 < span {
				c.Virtual[id] = true
				c.Sizes[id] = [2]float64{0, 0}
			} else {
				c.Sizes[id] = [2]float64{w, g * float64(r.Intn(6))}
				if r.Bool(30) {
					c.Sizes[id] = [2]float64{g * float64(r.Intn(14)), g * float64(r.Intn(6))}
				}
			}
			perLayer[l] = append(perLayer[l], id)
			if prev != "" {
				es = append(es, []string{prev, id})
			}
			prev = id
		}
	}
	// the order of first appearance in the edge list is the order in the band: list the bands' nodes left to right
	// (older blocks first) by emitting, band by band, an edge that mentions each node
	first := map[string]bool{}
	var ordered [][]string
	maxl := blocks + span - 2
	for l := 0; l <= maxl; l++ {
		for _, id := range perLayer[l] {
			for _, e := range es {
				if (e[0] == id || e[1] == id) && !first[e[0]+">"+e[1]] {
					// an edge may only be emitted once all nodes left of its ends in their bands are known
					first[e[0]+">"+e[1]] = true
					ordered = append(ordered, e)
				}
			}
		}
	}
	c.Edges = ordered
	if r.Bool(40) { // a few extra edges between neighbouring bands
		for k := 1 + r.Intn(3); k > 0; k-- {
			l := r.Intn(maxl)
			a, b := perLayer[l][r.Intn(len(perLayer[l]))], perLayer[l+1][r.Intn(len(perLayer[l+1]))]
			dup := false
			for _, e := range c.Edges {
				if e[0] == a && e[1] == b {
					dup = true
				}
			}
			if !dup && !c.Virtual[a] && !c.Virtual[b] {
				c.Edges = append(c.Edges, []string{a, b})
			}
		}
	}
	c.NS = g * float64(r.Intn(4))
	c.LS = g * float64(r.Intn(6))
	return c
}

// does the result keep nodes of a band NodeSpacing apart, in order (C04)? only for the size-aware positioners
func posOverlap(c posCase, a autog.VerifSnap) string {
	if c.Alg == "bk" {
		return ""
	}
	for _, l := range a.Layers {
		for k := 1; k < len(l.Nodes); k++ {
			p, q := a.Nodes[l.Nodes[k-1]], a.Nodes[l.Nodes[k]]
			if q.X < p.X+p.W+c.NS {
				return fmt.Sprintf("nodes %s [x %v, w %v] and %s [x %v] of one band are %v apart, NodeSpacing is %v", p.ID, p.X, p.W, q.ID, q.X, q.X-p.X-p.W, c.NS)
			}
		}
	}
	for _, n := range a.Nodes {
		if n.X < 0 {
			return fmt.Sprintf("node %s has x = %v", n.ID, n.X)
		}
	}
	return ""
}

func runPosUnit(alg string, seed uint64, n int, outDir string) int {
	r := NewRng(seed)
	os.MkdirAll(outDir, 0o755)
	code := map[string]int{"sink": 1, "valign": 2, "packright": 3, "ns": 4, "bk": 5}[alg]
	var cases []posCase
	var shard strings.Builder
	nshard, inShard := 0, 0
	flush := func() {
		if inShard == 0 {
			return
		}
		src := "From Autog Require Import Check.\nDefinition q (n : Z) (d : positive) : Q := Qmake n d.\nDefinition punits : list (nat * (nat * Z * Q * Q * graph * graph)) := [\n" +
			shard.String() + "].\nDefinition U := Eval vm_compute in pos_failing punits.\nPrint U.\n"
		os.WriteFile(fmt.Sprintf("%s/unit_%03d.v", outDir, nshard), []byte(src), 0o644)
		nshard++
		inShard = 0
		shard.Reset()
	}
	for i := 0; i < n; i++ {
		c := genPosCase(r, alg)
		var b, a autog.VerifSnap
		func() {
			defer func() {
				if rec := recover(); rec != nil {
					c.Panic = fmt.Sprint(rec)
				}
			}()
			b, a = autog.VerifPosition(alg, graph.EdgeSlice(c.Edges), c.Layers, c.Sizes, c.Virtual, c.NS, c.LS, c.BK)
		}()
		if c.Panic == "" {
			c.Overlap = posOverlap(c, a)
			if inShard > 0 {
				shard.WriteString(";\n")
			}
			fmt.Fprintf(&shard, " (%d%%nat, (%d%%nat, %s, %s, %s, %s, %s))", i, code, zlit(c.BK), qlit(c.NS), qlit(c.LS), graphLit(b), graphLit(a))
			inShard++
			if inShard >= 25 {
				flush()
			}
		}
		cases = append(cases, c)
	}
	flush()
	writeJSON(outDir+"/units.json", cases)
	fmt.Printf("unit pos-%s: %d cases into %d shards\n", alg, len(cases), nshard)
	return 0
}
