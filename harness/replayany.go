//go:build verif

package main

import (
	"encoding/json"
	"flag"
	"fmt"
	"os"

	"github.com/nulab/autog"
	"github.com/nulab/autog/graph"
)

// replayany re-evaluates a recorded violation that is not a plain Layout input: an inner function on a synthetic
// state (kind "unit"), a corridor (kind "corridor"), a spline fit, a cubic, a containment test. It runs the
// IMPLEMENTATION again on the recorded case and evaluates the same facts the check evaluated; exit status 1 when
// the failure reproduces, 0 when it does not.
func runReplayAny(fs *flag.FlagSet, prop string, seed uint64, n int, out, file string) int {
	b, err := os.ReadFile(file)
	if err != nil {
		fmt.Fprintln(os.Stderr, err)
		return 2
	}
	var hdr struct {
		Kind     string          `json:"kind"`
		Function string          `json:"function"`
		Case     json.RawMessage `json:"case"`
	}
	if json.Unmarshal(b, &hdr) != nil {
		return 2
	}
	fail := func(format string, a ...any) int {
		fmt.Println("REPRODUCED " + hdr.Kind + " " + hdr.Function)
		fmt.Printf(format+"\n", a...)
		return 1
	}
	switch hdr.Kind {
	case "unit":
		switch {
		case hdr.Function == "crossings":
			var c crossCase
			json.Unmarshal(hdr.Case, &c)
			st, impl := autog.VerifCrossings(graph.EdgeSlice(c.Edges), c.Layers)
			naive := naiveCrossings(st)
			if impl != naive {
				return fail("the crossing counter reports %d, the order has %d crossings", impl, naive)
			}
		case hdr.Function == "order":
			var c orderCase
			json.Unmarshal(hdr.Case, &c)
			_, a, rep := autog.VerifOrder(graph.EdgeSlice(c.Edges), c.Layers)
			sum := 0
			for _, x := range rep {
				sum += x
			}
			if n := naiveCrossingsIn(a); len(rep) > 0 && sum != n {
				return fail("the ordering phase reports %v crossings, the order it installs has %d", rep, n)
			}
		case len(hdr.Function) > 6 && hdr.Function[:6] == "route-":
			var c routeCase
			json.Unmarshal(hdr.Case, &c)
			var c05, c06, ov string
			func() {
				defer func() {
					if rec := recover(); rec != nil {
						ov = fmt.Sprint("panic: ", rec)
					}
				}()
				_, a := autog.VerifRoute(c.Alg, c.Route, graph.EdgeSlice(c.Edges), c.Layers, c.Sizes, c.Virtual, c.NS, c.LS, c.BK)
				c05, c06 = routeProblems(c.Route, a)
			}()
			if c05+c06+ov != "" {
				return fail("%s %s %s", c05, c06, ov)
			}
		case len(hdr.Function) > 4 && hdr.Function[:4] == "pos-":
			var c posCase
			json.Unmarshal(hdr.Case, &c)
			var msg string
			func() {
				defer func() {
					if rec := recover(); rec != nil {
						msg = fmt.Sprint("panic: ", rec)
					}
				}()
				_, a := autog.VerifPosition(c.Alg, graph.EdgeSlice(c.Edges), c.Layers, c.Sizes, c.Virtual, c.NS, c.LS, c.BK)
				msg = posOverlap(c, a)
			}()
			if msg != "" {
				return fail("%s", msg)
			}
		default:
			var c unitCase
			json.Unmarshal(hdr.Case, &c)
			d := unitCase{Fn: c.Fn, Edges: c.Edges, Layers: c.Layers}
			evalUnit(&d)
			switch {
			case d.Panic != "":
				return fail("panic: %s", d.Panic)
			case d.InfeasibleEdge != nil:
				return fail("edge %v spans less than one band afterwards", d.InfeasibleEdge)
			case c.Fn != "ns" && c.Fn != "p1greedy" && c.Fn != "p1dfs" && d.LengthAfter != d.LengthBefore:
				return fail("total edge length changed from %d to %d", d.LengthBefore, d.LengthAfter)
			case c.Fn == "ns" && c.LengthAfter != 0 && d.LengthAfter >= c.LengthAfter && c.LengthAfter > 0 && hasField(hdr.Case, "model_optimum") && d.LengthAfter > modelOptimum(hdr.Case):
				return fail("network simplex returns total edge length %d, the certified minimum is %d", d.LengthAfter, modelOptimum(hdr.Case))
			case d.EmptyLayer != -1 && (c.Fn == "vbalance" || c.Fn == "ns"):
				return fail("band %d is empty afterwards", d.EmptyLayer)
			}
		}
	case "corridor":
		var c corridor
		json.Unmarshal(hdr.Case, &c)
		d := corridor{Class: c.Class, Rects: c.Rects, Start: c.Start, End: c.End}
		runShortest(&d)
		if d.Outcome != 0 {
			return fail("the router panicked or did not return (outcome %d) %s", d.Outcome, d.Panic)
		}
		if msgs := checkC19(d); len(msgs) > 0 {
			return fail("%v", msgs)
		}
	case "spline":
		var s splineCase
		json.Unmarshal(hdr.Case, &s)
		d := runSplineCase(s.Corridor)
		if len(d.Problems) > 0 {
			return fail("%v", d.Problems)
		}
	case "roots":
		var rc rootCase
		json.Unmarshal(hdr.Case, &rc)
		rc.Problem, rc.Got = "", nil
		checkRoots(&rc)
		if rc.Problem != "" {
			return fail("%s", rc.Problem)
		}
	case "curve":
		var cc curveCase
		json.Unmarshal(hdr.Case, &cc)
		got := autog.VerifCurveContained(cc.Ctrl, cc.Rects)
		if (cc.Expected == "inside") != got {
			return fail("curve expected %s, the containment test says %v", cc.Expected, got)
		}
	default:
		fmt.Println("not an executable replay: kind", hdr.Kind)
		return 2
	}
	fmt.Println("not reproduced")
	return 0
}

func hasField(raw json.RawMessage, k string) bool {
	var m map[string]any
	json.Unmarshal(raw, &m)
	_, ok := m[k]
	return ok
}

func modelOptimum(raw json.RawMessage) int {
	var m map[string]any
	json.Unmarshal(raw, &m)
	if f, ok := m["model_optimum"].(float64); ok {
		return int(f)
	}
	return 1 << 30
}

func init() { extraCommands["replayany"] = runReplayAny }
