package main

import (
	"fmt"
	"runtime/debug"

	"github.com/nulab/autog"
	"github.com/nulab/autog/graph"
)

func caseOptions(c Case) []autog.Option {
	var opts []autog.Option
	switch c.P1 {
	case "greedy":
		opts = append(opts, autog.WithCycleBreaking(autog.CycleBreakingGreedy))
	case "greedyrnd":
		opts = append(opts, autog.WithCycleBreaking(autog.CycleBreakingGreedy), autog.WithNonDeterministicGreedyCycleBreaker())
	case "dfs":
		opts = append(opts, autog.WithCycleBreaking(autog.CycleBreakingDepthFirst))
	case "":
	default:
		panic("bad p1 " + c.P1)
	}
	switch c.P2 {
	case "ns":
		opts = append(opts, autog.WithLayering(autog.LayeringNetworkSimplex))
	case "lp":
		opts = append(opts, autog.WithLayering(autog.LayeringLongestPath))
	case "":
	default:
		panic("bad p2 " + c.P2)
	}
	switch c.P3 {
	case "noop":
		opts = append(opts, autog.WithOrdering(autog.OrderingNoop))
	case "":
	default:
		panic("bad p3 " + c.P3)
	}
	switch c.P4 {
	case "sink":
		opts = append(opts, autog.WithPositioning(autog.PositioningSinkColoring))
	case "valign":
		opts = append(opts, autog.WithPositioning(autog.PositioningVAlign))
	case "packright":
		opts = append(opts, autog.WithPositioning(autog.PositioningPackRight))
	case "ns":
		opts = append(opts, autog.WithPositioning(autog.PositioningNetworkSimplex))
	case "bk":
		opts = append(opts, autog.WithPositioning(autog.PositioningBrandesKoepf))
	case "bk0", "bk1", "bk2", "bk3":
		opts = append(opts, autog.WithPositioning(autog.PositioningBrandesKoepf), autog.WithBrandesKoepfLayout(int(c.P4[2]-'0')))
	case "":
	default:
		panic("bad p4 " + c.P4)
	}
	switch c.P5 {
	case "polyline":
		opts = append(opts, autog.WithEdgeRouting(autog.EdgeRoutingPolyline))
	case "straight":
		opts = append(opts, autog.WithEdgeRouting(autog.EdgeRoutingStraight))
	case "ortho":
		opts = append(opts, autog.WithEdgeRouting(autog.EdgeRoutingOrtho))
	case "splines":
		opts = append(opts, autog.WithEdgeRouting(autog.EdgeRoutingSplines))
	case "noop":
		opts = append(opts, autog.WithEdgeRouting(autog.EdgeRoutingNoop))
	case "":
	default:
		panic("bad p5 " + c.P5)
	}
	switch c.SizeMode {
	case "fixed":
		opts = append(opts, autog.WithNodeFixedSize(c.FixedW, c.FixedH))
	case "map":
		opts = append(opts, autog.WithNodeSize(sizeMap(c)))
	case "fixedmap":
		opts = append(opts, autog.WithNodeFixedSize(c.FixedW, c.FixedH), autog.WithNodeSize(sizeMap(c)))
	}
	opts = append(opts, autog.WithNodeSpacing(c.NodeSpacing), autog.WithLayerSpacing(c.LayerSpacing))
	if c.VirtualOut {
		opts = append(opts, autog.WithOutputVirtualNodes(true))
	}
	if c.Thoroughness > 0 {
		opts = append(opts, autog.WithNetworkSimplexThoroughness(uint(c.Thoroughness)))
	}
	return opts
}

func sizeMap(c Case) map[string]graph.Size {
	m := map[string]graph.Size{}
	// graph.Size also has X and Y: whatever a caller leaves in them must not reach the layout
	for k, v := range c.Sizes {
		m[k] = graph.Size{X: -50 - v[0], Y: -70, W: v[0], H: v[1]}
	}
	return m
}

func cloneEdges(es [][]string) [][]string {
	out := make([][]string, len(es))
	for i, e := range es {
		out[i] = append([]string(nil), e...)
	}
	return out
}

// runLayout calls the public entry point and converts a panic into an error
func runLayout(c Case, extra ...autog.Option) (out graph.Layout, err error) {
	defer func() {
		if r := recover(); r != nil {
			err = fmt.Errorf("panic: %v\n%s", r, firstLines(string(debug.Stack()), 30))
		}
	}()
	src := graph.EdgeSlice(cloneEdges(c.Edges))
	opts := append(caseOptions(c), extra...)
	out = autog.Layout(src, opts...)
	return out, nil
}

func firstLines(s string, n int) string {
	cnt := 0
	for i, ch := range s {
		if ch == '\n' {
			cnt++
			if cnt >= n {
				return s[:i]
			}
		}
	}
	return s
}
