package main

import "fmt"

// Structured inputs that are LARGE for the library but have a simple shape: "finishes within a budget that is
// generous for the graph's size" (C01) cannot be judged on 14-node graphs. Each family stresses one kind of
// blow-up: reconverging paths (diamond ladder, mesh), depth (chain), width (star, bipartite), branching (tree),
// many cycles (ring of rings). They run first, under the same watchdog as the random cases.
func scaleCorpus() []Case {
	var cs []Case
	add := func(kind string, es [][2]int, p1, p2, p4, p5 string) {
		c := Case{Kind: "scale:" + kind, P1: p1, P2: p2, P4: p4, P5: p5, SizeMode: "fixed", FixedW: 40, FixedH: 24, NodeSpacing: 16, LayerSpacing: 32}
		for _, e := range es {
			c.Edges = append(c.Edges, []string{nid(e[0]), nid(e[1])})
		}
		c.Name = fmt.Sprintf("scale-%s-%d-%s-%s-%s-%s", kind, len(es), p1, p2, p4, p5)
		cs = append(cs, c)
	}
	ladder := func(k int) (es [][2]int) { // k diamonds in a row: 2^k source-to-sink paths
		for i := 0; i < k; i++ {
			a := 3 * i
			es = append(es, [2]int{a, a + 1}, [2]int{a, a + 2}, [2]int{a + 1, a + 3}, [2]int{a + 2, a + 3})
		}
		return
	}
	mesh := func(layers, w int) (es [][2]int) { // complete bipartite between consecutive layers
		for l := 0; l+1 < layers; l++ {
			for i := 0; i < w; i++ {
				for j := 0; j < w; j++ {
					es = append(es, [2]int{l*w + i, (l+1)*w + j})
				}
			}
		}
		return
	}
	chain := func(n int) (es [][2]int) {
		for i := 0; i+1 < n; i++ {
			es = append(es, [2]int{i, i + 1})
		}
		return
	}
	star := func(n int) (es [][2]int) {
		for i := 1; i <= n; i++ {
			es = append(es, [2]int{0, i})
		}
		return
	}
	tree := func(depth int) (es [][2]int) {
		n := 1<<depth - 1
		for i := 1; i < n; i++ {
			es = append(es, [2]int{(i - 1) / 2, i})
		}
		return
	}
	rings := func(k, m int) (es [][2]int) { // k rings of m nodes, ring i linked to ring i+1 both ways
		for r := 0; r < k; r++ {
			for i := 0; i < m; i++ {
				es = append(es, [2]int{r*m + i, r*m + (i+1)%m})
			}
			if r+1 < k {
				es = append(es, [2]int{r * m, (r + 1) * m}, [2]int{(r+1)*m + 1, r*m + 1})
			}
		}
		return
	}
	dense := func(n int) (es [][2]int) { // complete DAG
		for i := 0; i < n; i++ {
			for j := i + 1; j < n; j++ {
				es = append(es, [2]int{i, j})
			}
		}
		return
	}
	for _, p1 := range []string{"greedy", "dfs"} {
		add("ladder40", ladder(40), p1, "ns", "sink", "polyline")
		add("ladder40", ladder(40), p1, "lp", "valign", "straight")
		add("ladder28", ladder(28), p1, "ns", "bk", "ortho")
		add("mesh6x5", mesh(6, 5), p1, "ns", "sink", "polyline")
		add("mesh12x3", mesh(12, 3), p1, "lp", "packright", "straight")
		add("rings8x6", rings(8, 6), p1, "ns", "sink", "polyline")
		add("rings6x5", rings(6, 5), p1, "lp", "bk", "ortho")
		add("dense10", dense(10), p1, "ns", "valign", "polyline")
	}
	add("chain400", chain(400), "greedy", "ns", "sink", "polyline")
	add("chain400", chain(400), "dfs", "lp", "bk", "straight")
	add("star300", star(300), "greedy", "ns", "sink", "polyline")
	add("star300", star(300), "dfs", "lp", "packright", "ortho")
	add("tree8", tree(8), "greedy", "ns", "sink", "polyline")
	add("tree8", tree(8), "dfs", "ns", "bk", "straight")
	add("tree7", tree(7), "greedy", "lp", "valign", "ortho")
	// a very wide drawing: resources must not grow with the coordinates (fixed defect 6bc1366: the NetworkSimplex
	// positioner built one layer per unit of x)
	for _, p4 := range []string{"ns", "sink", "bk", "valign"} {
		add("wideunits", [][2]int{{0, 1}, {0, 2}, {1, 3}, {2, 3}}, "dfs", "ns", p4, "polyline")
		cs[len(cs)-1].FixedW, cs[len(cs)-1].FixedH, cs[len(cs)-1].NodeSpacing = 3e8, 1e7, 5e7
	}
	return cs
}
