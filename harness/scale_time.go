//go:build verif

package main

import (
	"flag"
	"fmt"
	"time"
)

func init() {
	extraCommands["scaletime"] = func(fs *flag.FlagSet, prop string, seed uint64, n int, out, file string) int {
		for _, c := range scaleCorpus() {
			t := time.Now()
			_, err := runLayout(c)
			fmt.Printf("%-50s %8.3fs err=%v\n", c.Name, time.Since(t).Seconds(), err != nil)
		}
		return 0
	}
}
