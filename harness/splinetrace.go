//go:build verif

package main

import (
	"encoding/json"
	"flag"
	"fmt"
	"os"
	"os/exec"
	"reflect"
	"strings"
	"sync"
	"time"

	"github.com/nulab/autog"
	"github.com/nulab/autog/graph"
)

// Spline routing (internal/phase5/splines.go) through the public entry point.
//   - Every generated case first runs in a child process under a wall-clock limit: the corridor router may not
//     return (recorded finding), and a goroutine that spins cannot be stopped from inside the process.
//   - Cases that return are traced (autog.VerifTrace) with a monitor that records what execSplines reports for
//     every routed edge (corridor rectangles, start and end point); geom.Shortest and geom.FitSpline are then
//     called through the hooks on exactly those rectangles, and everything is written as Gallina literals for
//     Model/SplineCheck.v, which re-computes the corridor and the control points.
//   - The direct oracles of C05 and C06 are evaluated on the returned layout.

type splineObs struct {
	Rects  []autog.VerifRect
	Start  [2]float64
	End    [2]float64
	Path   [][2]float64
	Pieces [][4][2]float64
}

type splineMonitor struct {
	crossings []int
	routes    []*splineObs
}

func fieldXY(v reflect.Value) [2]float64 {
	return [2]float64{v.FieldByName("X").Float(), v.FieldByName("Y").Float()}
}

func (m *splineMonitor) Log(phase int, alg, key string, val any) {
	if phase == 3 && key == "crossings" {
		if x, ok := val.(int); ok {
			m.crossings = append(m.crossings, x)
		}
		return
	}
	if phase != 5 {
		return
	}
	switch key {
	case "spline":
		m.routes = append(m.routes, &splineObs{})
	case "rect":
		if len(m.routes) == 0 {
			return
		}
		v := reflect.ValueOf(val)
		tl, br := fieldXY(v.FieldByName("TL")), fieldXY(v.FieldByName("BR"))
		o := m.routes[len(m.routes)-1]
		o.Rects = append(o.Rects, autog.VerifRect{TLX: tl[0], TLY: tl[1], BRX: br[0], BRY: br[1]})
	case "shortest-start":
		if len(m.routes) > 0 {
			m.routes[len(m.routes)-1].Start = fieldXY(reflect.ValueOf(val))
		}
	case "shortest-end":
		if len(m.routes) > 0 {
			m.routes[len(m.routes)-1].End = fieldXY(reflect.ValueOf(val))
		}
	}
}

type splineEntry struct {
	Index     int      `json:"index"`
	Case      Case     `json:"case"`
	Outcome   string   `json:"outcome"` // ok | panic | hang
	Detail    string   `json:"detail,omitempty"`
	LongEdge  bool     `json:"long_edge"`  // some edge spans more than one band (decided with polyline routing)
	ZeroWidth bool     `json:"zero_width"` // some node has width zero
	Routes    int      `json:"routes"`
	Fitted    int      `json:"fitted"` // routes whose shortest path has more than two points (FitSpline ran)
	C05       []string `json:"c05,omitempty"`
	C06       []string `json:"c06,omitempty"`
	Error     string   `json:"error,omitempty"`
	Shard     int      `json:"shard"`
}

func sobsLit(o *splineObs) string {
	var rs []string
	for _, r := range o.Rects {
		rs = append(rs, fmt.Sprintf("mkRect (%s,%s) (%s,%s)", qlit(r.TLX), qlit(r.TLY), qlit(r.BRX), qlit(r.BRY)))
	}
	var ps []string
	for _, p := range o.Pieces {
		ps = append(ps, fmt.Sprintf("mkPiece (%s,%s) (%s,%s) (%s,%s) (%s,%s)", qlit(p[0][0]), qlit(p[0][1]), qlit(p[1][0]), qlit(p[1][1]),
			qlit(p[2][0]), qlit(p[2][1]), qlit(p[3][0]), qlit(p[3][1])))
	}
	return fmt.Sprintf("mkSobs [%s] (%s,%s) (%s,%s) %s [%s]", strings.Join(rs, ";"), qlit(o.Start[0]), qlit(o.Start[1]), qlit(o.End[0]), qlit(o.End[1]),
		ptsLit(o.Path), strings.Join(ps, ";"))
}

// hasLongEdge: does the same case with polyline routing draw an edge with a bend?
func hasLongEdge(c Case) bool {
	d := c
	d.P5 = "polyline"
	out, err := runLayout(d)
	if err != nil {
		return true
	}
	for _, e := range out.Edges {
		if len(e.Points) > 2 {
			return true
		}
	}
	return false
}

func splineGenOpts() GenOpts {
	return GenOpts{MaxN: 9, Kinds: []string{"outtree", "intree", "dag", "longdag", "layered", "cyclic", "dense", "slack", "multidag"}, SelfLoops: true, MultiComp: true,
		P1: allP1, P2: allP2, P4: []string{"sink", "valign", "packright", "bk", "ns"}, P5: []string{"splines"},
		SizeModes: []string{"fixed", "fixed", "fixed", "map", "fixedmap"}, VirtualOut: []bool{false, true}, SpacingsPos: true}
}

type screened struct {
	Outcome string // ok | panic | hang
	Detail  string
}

// screenCases runs Layout on every case in a child process under a wall-clock limit (a goroutine that spins cannot
// be stopped from inside the process)
func screenCases(cases []Case, limit time.Duration, tmpDir string) []screened {
	res := make([]screened, len(cases))
	self, _ := os.Executable()
	os.MkdirAll(tmpDir, 0o755)
	var wg sync.WaitGroup
	sem := make(chan struct{}, 8)
	for i, c := range cases {
		wg.Add(1)
		sem <- struct{}{}
		go func(i int, c Case) {
			defer wg.Done()
			defer func() { <-sem }()
			f := fmt.Sprintf("%s/one_%d.json", tmpDir, i)
			writeJSON(f, []Case{c})
			cmd := exec.Command(self, "one", "-file", f)
			done := make(chan error, 1)
			var outb []byte
			go func() {
				var err error
				outb, err = cmd.CombinedOutput()
				done <- err
			}()
			select {
			case err := <-done:
				if err == nil {
					res[i] = screened{Outcome: "ok"}
				} else {
					res[i] = screened{Outcome: "panic", Detail: firstLines(string(outb), 6)}
				}
			case <-time.After(limit):
				cmd.Process.Kill()
				<-done
				res[i] = screened{Outcome: "hang", Detail: fmt.Sprintf("Layout did not return within %v", limit)}
			}
			os.Remove(f)
		}(i, c)
	}
	wg.Wait()
	return res
}

// OrderingNoop with every positioner and router, in child processes: the option leaves long edges unbroken, which
// the positioners that assume a proper layering do not survive (recorded finding ordering-noop)
func runNoopScreen(fs *flag.FlagSet, prop string, seed uint64, n int, outDir, file string) int {
	r := NewRng(seed)
	o := GenOpts{MaxN: 9, Kinds: connectedKinds, SelfLoops: true, MultiComp: true, P1: allP1, P2: allP2,
		P4: []string{"sink", "valign", "packright", "ns", "bk", "bk1"}, P5: basicP5, SizeModes: allSizeModes, VirtualOut: []bool{false, true}, SpacingsPos: true}
	var cases []Case
	for i := 0; i < n; i++ {
		c := genCase(r, o)
		c.P3 = "noop"
		if c.P4 == "ns" && len(c.Edges) > 10 {
			c.P4 = "valign"
		}
		c.Name = fmt.Sprintf("noop-s%d-%d", seed, i)
		cases = append(cases, c)
	}
	type entry struct {
		Index    int      `json:"index"`
		Case     Case     `json:"case"`
		Outcome  string   `json:"outcome"`
		Detail   string   `json:"detail,omitempty"`
		LongEdge bool     `json:"long_edge"`
		C06      []string `json:"c06,omitempty"`
	}
	var entries []entry
	for i, sc := range screenCases(cases, 4*time.Second, outDir) {
		e := entry{Index: i, Case: cases[i], Outcome: sc.Outcome, Detail: sc.Detail}
		d := cases[i]
		d.P3, d.P4 = "", "valign"
		e.LongEdge = hasLongEdge(d)
		if sc.Outcome == "ok" {
			if out, err := runLayout(cases[i]); err == nil {
				e.C06 = oracleC06(cases[i], out)
			}
		}
		entries = append(entries, e)
	}
	writeJSON(outDir+"/index.json", entries)
	fmt.Printf("noop: %d cases\n", len(entries))
	return 0
}

func runSplineTrace(fs *flag.FlagSet, prop string, seed uint64, n int, outDir, file string) int {
	limit := 4 * time.Second
	r := NewRng(seed)
	o := splineGenOpts()
	var cases []Case
	if file != "" {
		cases = readCases(file)
	} else {
		seen := map[string]bool{}
		for i := 0; i < n; i++ {
			c := genCase(r, o)
			if c.SizeMode == "fixed" && (c.FixedW == 0 || r.Bool(80)) {
				c.FixedW, c.FixedH = 8*float64(2+r.Intn(8)), 8*float64(1+r.Intn(5)) // mostly strictly positive sizes
			}
			if c.P4 == "ns" && len(c.Edges) > 10 {
				c.P4 = "sink"
			}
			c.Name = fmt.Sprintf("spline-t%d-%d", seed, i)
			if seen[c.Key()] {
				continue
			}
			seen[c.Key()] = true
			cases = append(cases, c)
		}
	}
	os.MkdirAll(outDir, 0o755)
	entries := make([]splineEntry, len(cases))
	// 1. child processes under a wall-clock limit
	for i, sc := range screenCases(cases, limit, outDir) {
		entries[i] = splineEntry{Index: i, Case: cases[i], Shard: -1, Outcome: sc.Outcome, Detail: sc.Detail}
	}
	// 2. trace the ones that return
	var shard, sshard strings.Builder
	nshard, inShard := 0, 0
	flush := func() {
		if inShard == 0 {
			return
		}
		src := "From Autog Require Import SplineCheck.\nDefinition q (n : Z) (d : positive) : Q := Qmake n d.\nDefinition cases : list (nat * tcase) := [\n" +
			shard.String() + "].\nDefinition sobs_all : list (nat * list sobs) := [\n" + sshard.String() +
			"].\nDefinition M := Eval vm_compute in check_cases cases.\nPrint M.\nDefinition S := Eval vm_compute in spline_failing cases sobs_all.\nPrint S.\n"
		os.WriteFile(fmt.Sprintf("%s/cases_%03d.v", outDir, nshard), []byte(src), 0o644)
		nshard++
		inShard = 0
		shard.Reset()
		sshard.Reset()
	}
	stuck := 0
	for i := range entries {
		e := &entries[i]
		c := e.Case
		for _, s := range c.Sizes {
			if s[0] == 0 {
				e.ZeroWidth = true
			}
		}
		if (c.SizeMode == "fixed" || c.SizeMode == "fixedmap") && c.FixedW == 0 || c.SizeMode == "none" {
			e.ZeroWidth = true
		}
		if c.SizeMode == "map" {
			for _, id := range c.NodeIDs() {
				if _, ok := c.Sizes[id]; !ok {
					e.ZeroWidth = true
				}
			}
		}
		// (the classification lays the input out with polyline routing, in this process: under a watchdog, because a change that
		// makes Layout spin must end in a report, not in a check that never returns)
		if stuck >= 3 {
			e.Outcome, e.Error = "hang", "not evaluated: three earlier inputs already did not return with polyline routing"
			continue
		}
		leCh := make(chan bool, 1)
		go func() {
			defer func() {
				if rec := recover(); rec != nil {
					leCh <- false
				}
			}()
			leCh <- hasLongEdge(c)
		}()
		select {
		case le := <-leCh:
			e.LongEdge = le
		case <-time.After(20 * time.Second):
			stuck++
			e.Outcome, e.Error = "hang", "Layout with polyline routing did not return within 20 s on this input"
			continue
		}
		if e.Outcome == "hang" && !e.LongEdge && !e.ZeroWidth && confirmHang(c) {
			e.Outcome, e.Detail = "ok", "" // outside the recorded class and the call returns in a fresh process: a busy machine
		}
		if e.Outcome != "ok" {
			continue
		}
		func() {
			defer func() {
				if rec := recover(); rec != nil {
					e.Error = fmt.Sprint("panic while tracing: ", rec)
				}
			}()
			mon := &splineMonitor{}
			out, snaps := autog.VerifTrace(graph.EdgeSlice(cloneEdges(c.Edges)), append(caseOptions(c), autog.WithMonitor(mon))...)
			ref := autog.Layout(graph.EdgeSlice(cloneEdges(c.Edges)), caseOptions(c)...)
			if !reflect.DeepEqual(out, ref) {
				e.Error = "hook: the traced pipeline and autog.Layout return different layouts: " + diffLayouts(out, ref)
				return
			}
			e.C05 = oracleC05(c, out)
			e.C06 = oracleC06(c, out)
			for _, o := range mon.routes {
				o.Path, o.Pieces = autog.VerifFitSpline(o.Start, o.End, o.Rects)
				if len(o.Path) != 2 {
					e.Fitted++
				}
			}
			e.Routes = len(mon.routes)
			lit, err := caseLit(c, out, snaps, mon.crossings)
			if err != nil {
				e.Error = err.Error()
				return
			}
			if inShard > 0 {
				shard.WriteString(";\n")
				sshard.WriteString(";\n")
			}
			fmt.Fprintf(&shard, " (%d%%nat, %s)", i, lit)
			var os_ []string
			for _, o := range mon.routes {
				os_ = append(os_, sobsLit(o))
			}
			fmt.Fprintf(&sshard, " (%d%%nat, [%s])", i, strings.Join(os_, ";\n   "))
			e.Shard = nshard
			inShard++
			if inShard >= 20 {
				flush()
			}
		}()
	}
	flush()
	writeJSON(outDir+"/index.json", entries)
	cnt := map[string]int{}
	for _, e := range entries {
		cnt[e.Outcome]++
	}
	fmt.Printf("spline: %d cases, %v, %d shards\n", len(entries), cnt, nshard)
	return 0
}

func init() {
	extraCommands["splinetrace"] = runSplineTrace
	extraCommands["noopscreen"] = runNoopScreen
	// one: Layout on the single case of a file; exit status 0 when it returns, 3 when it panics
	extraCommands["one"] = func(fs *flag.FlagSet, prop string, seed uint64, n int, out, file string) int {
		b, err := os.ReadFile(file)
		if err != nil {
			return 2
		}
		var cs []Case
		if json.Unmarshal(b, &cs) != nil || len(cs) == 0 {
			return 2
		}
		if _, err := runLayout(cs[0]); err != nil {
			fmt.Println(firstLines(err.Error(), 8))
			return 3
		}
		return 0
	}
}
