//go:build verif

package main

import (
	"flag"
	"fmt"
	"math"
	"sort"
	"time"

	"github.com/nulab/autog"
)

// C20: the spline fitter on corridors of the class in which the router works, and the polynomial root finder on
// polynomials built from chosen roots.

type splineCase struct {
	Corridor corridor        `json:"corridor"`
	Outcome  int             `json:"outcome"` // 0 returned, 1 panic, 2 watchdog
	Panic    string          `json:"panic,omitempty"`
	Pieces   [][4][2]float64 `json:"pieces,omitempty"`
	Problems []string        `json:"problems,omitempty"`
	// containment, measured on 401 samples per piece: the largest distance of a sample from the corridor, and the
	// largest distance from the nearest corridor vertex among the samples that are more than 0.05 outside
	MaxExcursion    float64 `json:"max_excursion"`
	OutsideToVtx    float64 `json:"outside_max_dist_to_vertex"`
	OnlyContainment bool    `json:"only_containment,omitempty"` // every problem is a containment problem
	// every stretch of the curve that is outside the corridor begins and ends next to a corridor vertex (within one
	// unit, the samples being up to 0.8 apart): the curve leaves and re-enters THROUGH vertices
	ThroughVertices bool `json:"through_vertices,omitempty"`
}

func distToCorridor(rs []autog.VerifRect, x, y float64) float64 {
	best := math.Inf(1)
	for _, r := range rs {
		dx := math.Max(math.Max(r.TLX-x, 0), x-r.BRX)
		dy := math.Max(math.Max(r.TLY-y, 0), y-r.BRY)
		best = math.Min(best, math.Hypot(dx, dy))
	}
	return best
}

func bez(p [4][2]float64, t float64) (float64, float64) {
	c := 1 - t
	b0, b1, b2, b3 := c*c*c, 3*t*c*c, 3*t*t*c, t*t*t
	return b0*p[0][0] + b1*p[1][0] + b2*p[2][0] + b3*p[3][0], b0*p[0][1] + b1*p[1][1] + b2*p[2][1] + b3*p[3][1]
}

func nearCorridor(rs []autog.VerifRect, x, y, tol float64) bool {
	for _, r := range rs {
		if x >= r.TLX-tol && x <= r.BRX+tol && y >= r.TLY-tol && y <= r.BRY+tol {
			return true
		}
	}
	return false
}

func runSplineCase(c corridor) splineCase {
	sc := splineCase{Corridor: c}
	done := make(chan struct{}, 1)
	var path [][2]float64
	go func() {
		defer func() {
			if rec := recover(); rec != nil {
				sc.Outcome, sc.Panic = 1, fmt.Sprint(rec)
			}
			done <- struct{}{}
		}()
		path, sc.Pieces = autog.VerifFitSpline(c.Start, c.End, c.Rects)
	}()
	select {
	case <-done:
	case <-time.After(3 * time.Second):
		select { // a busy machine is not a hang: another half minute
		case <-done:
			goto returned
		case <-time.After(30 * time.Second):
		}
		sc.Outcome = 2
		sc.Problems = []string{"the fitter did not return within 3 s"}
		return sc
	}
returned:
	if sc.Outcome == 1 {
		sc.Problems = []string{"the fitter panicked: " + sc.Panic}
		return sc
	}
	sc.Corridor.Path = path
	if len(path) == 2 {
		return sc // straight path: phase 5 does not call the fitter
	}
	ps := sc.Pieces
	if len(ps) == 0 {
		sc.Problems = append(sc.Problems, "no piece returned for a bent path")
		return sc
	}
	if ps[0][0] != path[0] {
		sc.Problems = append(sc.Problems, fmt.Sprintf("first piece starts at %v, the path at %v", ps[0][0], path[0]))
	}
	if ps[len(ps)-1][3] != path[len(path)-1] {
		sc.Problems = append(sc.Problems, fmt.Sprintf("last piece ends at %v, the path at %v", ps[len(ps)-1][3], path[len(path)-1]))
	}
	for i := 1; i < len(ps); i++ {
		if ps[i-1][3] != ps[i][0] {
			sc.Problems = append(sc.Problems, fmt.Sprintf("pieces %d and %d do not join: %v vs %v", i-1, i, ps[i-1][3], ps[i][0]))
		}
	}
	structural := len(sc.Problems)
	vtxDist := func(x, y float64) float64 {
		dv := math.Inf(1)
		for _, q := range corners(c.Rects) {
			dv = math.Min(dv, math.Hypot(q[0]-x, q[1]-y))
		}
		return dv
	}
	through := true
	for i, p := range ps {
		reported := false
		inRun := false
		var lastX, lastY float64
		for k := 0; k <= 400; k++ {
			x, y := bez(p, float64(k)/400)
			if math.IsNaN(x) || math.IsNaN(y) {
				sc.Problems = append(sc.Problems, fmt.Sprintf("piece %d has a NaN point at t=%.4f", i, float64(k)/400))
				structural++
				break
			}
			d := distToCorridor(c.Rects, x, y)
			sc.MaxExcursion = math.Max(sc.MaxExcursion, d)
			out := d > 0.05+1e-9
			if out {
				sc.OutsideToVtx = math.Max(sc.OutsideToVtx, vtxDist(x, y))
				if !inRun && vtxDist(x, y) > 1.0 {
					through = false // the curve left the corridor away from any vertex
				}
				if !reported {
					reported = true
					sc.Problems = append(sc.Problems, fmt.Sprintf("piece %d leaves the corridor by more than 0.05 at t=%.4f: (%.4f, %.4f)", i, float64(k)/400, x, y))
				}
				lastX, lastY = x, y
			} else if inRun && vtxDist(lastX, lastY) > 1.0 {
				through = false // it came back in away from any vertex
			}
			inRun = out
		}
		if inRun {
			through = false // a piece ends inside the corridor (on a path point)
		}
	}
	sc.ThroughVertices = through && sc.MaxExcursion > 0.05+1e-9
	sc.OnlyContainment = structural == 0 && len(sc.Problems) > 0
	return sc
}

type rootCase struct {
	Coeff    [4]float64 `json:"coeff"`
	Roots    []float64  `json:"true_roots"`
	Got      []float64  `json:"returned"`
	Repeated bool       `json:"repeated"`
	Problem  string     `json:"problem,omitempty"`
}

func genRootCase(r *Rng) rootCase {
	q := func() float64 { return float64(r.Intn(65)-32) / 4 }
	var rc rootCase
	switch r.Intn(6) {
	case 0: // three distinct real roots
		a, b, c := q(), q(), q()
		for a == b || b == c || a == c {
			a, b, c = q(), q(), q()
		}
		rc.Roots = []float64{a, b, c}
		rc.Coeff = [4]float64{-a * b * c, a*b + a*c + b*c, -(a + b + c), 1}
	case 1: // one real root, two complex: (t - a)(t^2 + p t + s) with p^2 < 4 s
		a, p := q(), q()
		s := p*p/4 + 1 + float64(r.Intn(8))
		rc.Roots = []float64{a}
		rc.Coeff = [4]float64{-a * s, s - a*p, p - a, 1}
	case 2: // repeated root
		a, b := q(), q()
		for a == b {
			b = q()
		}
		rc.Roots = []float64{a, a, b}
		rc.Repeated = true
		rc.Coeff = [4]float64{-a * a * b, a*a + 2*a*b, -(2*a + b), 1}
	case 3: // quadratic, two roots
		a, b := q(), q()
		for a == b {
			b = q()
		}
		rc.Roots = []float64{a, b}
		rc.Coeff = [4]float64{a * b, -(a + b), 1, 0}
	case 4: // quadratic without real roots
		p := q()
		rc.Coeff = [4]float64{p*p/4 + 1, p, 1, 0}
	default: // linear
		a := q()
		rc.Roots = []float64{a}
		rc.Coeff = [4]float64{-a * 2, 2, 0, 0}
	}
	k := float64(int(1) << uint(r.Intn(3)))
	for i := range rc.Coeff {
		rc.Coeff[i] *= k
	}
	return rc
}

func checkRoots(rc *rootCase) {
	rc.Got = autog.VerifSolve3(rc.Coeff)
	want := append([]float64(nil), rc.Roots...)
	got := append([]float64(nil), rc.Got...)
	sort.Float64s(want)
	sort.Float64s(got)
	uniq := func(xs []float64) []float64 {
		var o []float64
		for _, x := range xs {
			if len(o) == 0 || math.Abs(x-o[len(o)-1]) > 1e-6 {
				o = append(o, x)
			}
		}
		return o
	}
	w, g := uniq(want), uniq(got)
	for _, x := range g {
		if math.IsNaN(x) {
			rc.Problem = "NaN returned"
			return
		}
		ok := false
		for _, y := range w {
			if math.Abs(x-y) <= 1e-6*math.Max(1, math.Abs(y)) {
				ok = true
			}
		}
		if !ok {
			rc.Problem = fmt.Sprintf("returned %v which is not a root (roots %v)", x, w)
			return
		}
	}
	for _, y := range w {
		ok := false
		for _, x := range g {
			if math.Abs(x-y) <= 1e-6*math.Max(1, math.Abs(y)) {
				ok = true
			}
		}
		if !ok {
			rc.Problem = fmt.Sprintf("real root %v is missing (returned %v)", y, g)
			return
		}
	}
}

// the containment test on synthetic cubics: a curve that clearly leaves the corridor through the interior of a
// side must be rejected, one that stays clearly inside must be accepted
type curveCase struct {
	Rects    []autog.VerifRect `json:"rects"`
	Ctrl     [4][2]float64     `json:"ctrl"`
	Expected string            `json:"expected"` // "inside" | "outside"
	Note     string            `json:"note,omitempty"`
	Got      bool              `json:"contained"`
	Problem  string            `json:"problem,omitempty"`
}

func strictlyInside(rs []autog.VerifRect, x, y, margin float64) bool {
	// inside one rectangle shrunk by margin, or within margin of a shared boundary inside the overlap
	for _, r := range rs {
		if x >= r.TLX+margin && x <= r.BRX-margin && y >= r.TLY-1e-9 && y <= r.BRY+1e-9 {
			return true
		}
	}
	return false
}

func corners(rs []autog.VerifRect) [][2]float64 {
	var out [][2]float64
	for _, r := range rs {
		out = append(out, [2]float64{r.TLX, r.TLY}, [2]float64{r.BRX, r.TLY}, [2]float64{r.TLX, r.BRY}, [2]float64{r.BRX, r.BRY})
	}
	return out
}

func genCurveCase(r *Rng) (curveCase, bool) {
	c := genCorridor(r, "inside")
	cc := curveCase{Rects: c.Rects}
	f, l := c.Rects[0], c.Rects[len(c.Rects)-1]
	rnd := func(a, b float64) float64 { return a + (b-a)*float64(r.Intn(1001))/1000 }
	minx, maxx := f.TLX, f.BRX
	for _, rc := range c.Rects {
		minx, maxx = math.Min(minx, rc.TLX), math.Max(maxx, rc.BRX)
	}
	cc.Ctrl[0] = [2]float64{rnd(f.TLX+1, f.BRX-1), f.TLY + 1}
	cc.Ctrl[3] = [2]float64{rnd(l.TLX+1, l.BRX-1), l.BRY - 1}
	cc.Ctrl[1] = [2]float64{rnd(minx-20, maxx+20), rnd(f.TLY, l.BRY)}
	cc.Ctrl[2] = [2]float64{rnd(minx-20, maxx+20), rnd(f.TLY, l.BRY)}
	// classify by dense sampling
	const N = 2000
	maxOut := 0.0
	allDeepInside := true
	nearCorner := false
	prevIn := true
	for k := 0; k <= N; k++ {
		x, y := bez(cc.Ctrl, float64(k)/N)
		in := inCorridor(c.Rects, x, y)
		if !strictlyInside(c.Rects, x, y, 0.5) {
			allDeepInside = false
		}
		if !in {
			d := math.Inf(1)
			for _, rc := range c.Rects {
				dx := math.Max(math.Max(rc.TLX-x, 0), x-rc.BRX)
				dy := math.Max(math.Max(rc.TLY-y, 0), y-rc.BRY)
				d = math.Min(d, math.Hypot(dx, dy))
			}
			maxOut = math.Max(maxOut, d)
		}
		if in != prevIn { // a boundary crossing near this sample: is it close to a polygon vertex?
			for _, q := range corners(c.Rects) {
				if math.Hypot(q[0]-x, q[1]-y) < 1.0 {
					nearCorner = true
				}
			}
		}
		prevIn = in
	}
	switch {
	case allDeepInside:
		cc.Expected = "inside"
	case maxOut > 1.0 && !nearCorner:
		cc.Expected = "outside"
	default:
		return cc, false // borderline: the fitter's tolerances may go either way
	}
	return cc, true
}

// tall narrow shafts joined by wide thin slabs that carry the path far to the other side: the shortest path has a long
// shallow stretch next to steep ones, so the fitted cubics swing vertically by much more than a slab is high
func genZigzagCorridor(r *Rng) corridor {
	c := corridor{Class: "inside"}
	y := 0.0
	x := float64(8 * (40 + r.Intn(40)))
	dir := -1.0
	if r.Bool(50) {
		dir = 1
	}
	turns := 1 + r.Intn(2)
	shaft := func() {
		w, h := float64(8*(3+r.Intn(6))), float64(8*(8+r.Intn(20)))
		c.Rects = append(c.Rects, autog.VerifRect{TLX: x, TLY: y, BRX: x + w, BRY: y + h})
		y += h
	}
	shaft()
	for t := 0; t < turns; t++ {
		last := c.Rects[len(c.Rects)-1]
		reach := float64(8 * (20 + r.Intn(50)))
		slabs := 1 + r.Intn(2)
		lo, hi := last.TLX, last.BRX
		for k := 0; k < slabs; k++ {
			h := float64(4 * (1 + r.Intn(8)))
			if dir < 0 {
				lo -= reach / float64(slabs)
				hi -= float64(4 * r.Intn(3))
			} else {
				hi += reach / float64(slabs)
				lo += float64(4 * r.Intn(3))
			}
			if lo < 0 {
				lo = 0
			}
			c.Rects = append(c.Rects, autog.VerifRect{TLX: lo, TLY: y, BRX: hi, BRY: y + h})
			y += h
		}
		// the next shaft at the far end of the last slab
		w := float64(8 * (3 + r.Intn(6)))
		if dir < 0 {
			x = lo + float64(4*r.Intn(3))
		} else {
			x = hi - w - float64(4*r.Intn(3))
		}
		shaft()
		dir = -dir
	}
	f, l := c.Rects[0], c.Rects[len(c.Rects)-1]
	c.Start = [2]float64{f.TLX + 4*float64(1+r.Intn(int((f.BRX-f.TLX)/4)-1)), f.TLY}
	c.End = [2]float64{l.TLX + 4*float64(1+r.Intn(int((l.BRX-l.TLX)/4)-1)), l.BRY}
	return c
}

// two or three tall rectangles whose shared boundary segments end where the straight line from start to end
// ALMOST passes: the shortest path bends at a corridor vertex by a tiny angle (well under a tenth of a degree), with
// legs hundreds of units long. A "nearly straight, simplify" shortcut that cuts such a corner leaves the corridor.
func genShallowCorridor(r *Rng) corridor {
	c := corridor{Class: "inside"}
	h := float64(8 * (40 + r.Intn(100)))
	w := float64(8 * (8 + r.Intn(12)))
	n := 2 + r.Intn(2)
	x0 := float64(8 * (20 + r.Intn(20)))
	slope := float64(8*(2+r.Intn(8))) / h * float64(1-2*r.Intn(2)) // dx per unit of y along the line
	sx := x0 + w/2
	eps := []float64{0.25, 0.5, 1, 2}[r.Intn(4)]
	for i := 0; i < n; i++ {
		// the line at the top and at the bottom of this band
		xt, xb := sx+slope*h*float64(i), sx+slope*h*float64(i+1)
		lo, hi := math.Min(xt, xb)-w/2, math.Max(xt, xb)+w/2
		if i+1 < n {
			// the wall facing the line's direction ends exactly on the line at the bottom of the band: the next band's end
			// point is moved eps beyond the line, so the path turns there
			if slope > 0 {
				hi = xb
			} else {
				lo = xb
			}
		}
		// multiples of 1/4 keep the coordinates dyadic
		c.Rects = append(c.Rects, autog.VerifRect{TLX: math.Floor(lo*4) / 4, TLY: h * float64(i), BRX: math.Ceil(hi*4) / 4, BRY: h * float64(i+1)})
		if i+1 < n {
			if slope > 0 {
				c.Rects[i].BRX = math.Round(xb*4) / 4
			} else {
				c.Rects[i].TLX = math.Round(xb*4) / 4
			}
		}
	}
	c.Start = [2]float64{math.Round(sx*4) / 4, 0}
	ex := sx + slope*h*float64(n)
	if slope > 0 {
		ex += eps * float64(n)
	} else {
		ex -= eps * float64(n)
	}
	c.End = [2]float64{math.Round(ex*4) / 4, h * float64(n)}
	l := c.Rects[n-1]
	if c.End[0] <= l.TLX || c.End[0] >= l.BRX {
		c.End[0] = (l.TLX + l.BRX) / 2
	}
	return c
}

func runSpline(fs *flag.FlagSet, prop string, seed uint64, n int, out, file string) int {
	r := NewRng(seed)
	var res struct {
		Splines []splineCase `json:"splines"`
		Roots   []rootCase   `json:"roots"`
		Curves  []curveCase  `json:"curves"`
	}
	for i := 0; i < 6*n; i++ {
		cc, ok := genCurveCase(r)
		if !ok {
			continue
		}
		cc.Got = autog.VerifCurveContained(cc.Ctrl, cc.Rects)
		if cc.Expected == "outside" && cc.Got {
			cc.Problem = "a cubic that leaves the corridor by more than 1 unit through the interior of a side is accepted as contained"
		}
		if cc.Expected == "inside" && !cc.Got {
			// not a violation of C20 (a rejected curve is split further, the result still stays inside); counted only.
			// The test is not translation invariant: it rejects inside curves when coordinates are negative.
			cc.Note = "a cubic that stays at least 0.5 inside the corridor is rejected"
		}
		res.Curves = append(res.Curves, cc)
	}
	stuck := 0
	for i := 0; i < 4*n && stuck < 4; i++ {
		c := genCorridor(r, "inside")
		switch i % 4 {
		case 1:
			c = genZigzagCorridor(r)
		case 2:
			c = genStairCorridor(r)
		case 3:
			c = genShallowCorridor(r)
		}
		sc := runSplineCase(c)
		if sc.Outcome == 2 {
			stuck++
		}
		res.Splines = append(res.Splines, sc)
	}
	for i := 0; i < 20*n; i++ {
		rc := genRootCase(r)
		checkRoots(&rc)
		res.Roots = append(res.Roots, rc)
	}
	writeJSON(out, res)
	return 0
}

func init() {
	extraCommands["spline"] = runSpline
}
