//go:build verif

package main

import (
	"flag"
	"fmt"
	"math/big"
	"os"
	"reflect"
	"strings"

	"github.com/nulab/autog"
	"github.com/nulab/autog/graph"
)

// Correspondence check, implementation side: run cases through autog.VerifTrace (Layout with a snapshot after
// every step), check that the traced run returns exactly what autog.Layout returns, and write the observed
// states as Gallina literals for the Coq model to re-compute (coq/Model/Check.v).

func runLayoutCapped(c Case) (graph.Layout, bool, error) {
	out, err := runLayout(c)
	if err != nil {
		return out, false, err
	}
	// the layering runs per connected component on the cycle-broken graph; ask the hook per component
	capped := false
	th := uint(28)
	if c.Thoroughness > 0 {
		th = uint(c.Thoroughness)
	}
	comp, k := inputComponents(c)
	for ci := 0; ci < k; ci++ {
		var es [][]string
		for _, e := range out.Edges {
			if comp[e.FromID] != ci || e.FromID == e.ToID {
				continue
			}
			if e.ArrowHeadStart {
				es = append(es, []string{e.ToID, e.FromID})
			} else {
				es = append(es, []string{e.FromID, e.ToID})
			}
		}
		if len(es) == 0 {
			continue
		}
		func() {
			defer func() { recover() }()
			cp, _ := autog.VerifNetworkSimplexCapped(graph.EdgeSlice(es), th)
			capped = capped || cp
		}()
	}
	return out, capped, nil
}

func qlit(x float64) string {
	r := new(big.Rat)
	if r.SetFloat64(x) == nil {
		return "(q 0 1)" // NaN / Inf never equal anything the model computes; flagged separately
	}
	n := r.Num().String()
	if strings.HasPrefix(n, "-") {
		n = "(" + n + ")"
	}
	return "(q " + n + " " + r.Denom().String() + ")"
}

func zlit(x int) string {
	if x < 0 {
		return fmt.Sprintf("(%d)", x)
	}
	return fmt.Sprint(x)
}

func natList(xs []int) string {
	if len(xs) == 0 {
		return "[]"
	}
	s := make([]string, len(xs))
	for i, x := range xs {
		if x < 0 {
			x = 999999
		}
		s[i] = fmt.Sprint(x)
	}
	return "[" + strings.Join(s, ";") + "]%nat"
}

func identLit(id string) string {
	if len(id) == 0 {
		return "[]"
	}
	s := make([]string, len(id))
	for i := 0; i < len(id); i++ {
		s[i] = fmt.Sprint(id[i])
	}
	return "[" + strings.Join(s, ";") + "]%N"
}

func boolLit(b bool) string {
	if b {
		return "true"
	}
	return "false"
}

func ptsLit(ps [][2]float64) string {
	if len(ps) == 0 {
		return "[]"
	}
	s := make([]string, len(ps))
	for i, p := range ps {
		s[i] = "(" + qlit(p[0]) + "," + qlit(p[1]) + ")"
	}
	return "[" + strings.Join(s, ";") + "]"
}

func natLit(x int) string {
	if x < 0 {
		x = 999999
	}
	return fmt.Sprintf("%d%%nat", x)
}

func graphLit(s autog.VerifSnap) string {
	var b strings.Builder
	b.WriteString("(mkGraph [")
	for i, n := range s.Nodes {
		if i > 0 {
			b.WriteString(";")
		}
		fmt.Fprintf(&b, "mkNode %s %s %s %s %s %s %s %s %s", natList(n.In), natList(n.Out), zlit(n.Layer), zlit(n.LayerPos),
			boolLit(n.Virtual), qlit(n.X), qlit(n.Y), qlit(n.W), qlit(n.H))
	}
	b.WriteString("] [")
	for i, e := range s.Edges {
		if i > 0 {
			b.WriteString(";")
		}
		fmt.Fprintf(&b, "mkEdge %s %s %s %s %s %s %s %s %s", natLit(e.From), natLit(e.To), zlit(e.Delta), zlit(e.Weight),
			boolLit(e.InTree), boolLit(e.Reversed), zlit(e.Cut), ptsLit(e.Points), boolLit(e.ArrowHeadStart))
	}
	b.WriteString("] " + natList(s.GN) + " " + natList(s.GE) + " [")
	for i, l := range s.Layers {
		if i > 0 {
			b.WriteString(";")
		}
		fmt.Fprintf(&b, "mkLayer %s %s %s", natList(l.Nodes), qlit(l.W), qlit(l.H))
	}
	b.WriteString("])")
	return b.String()
}

var labelCode = map[string]int{"populated": 0, "component": 1, "noselfloops": 2, "phase1": 3, "phase2": 4, "phase3": 5, "phase4": 6, "phase5": 7, "restored": 8}

func caseLit(c Case, out graph.Layout, snaps []autog.VerifSnap, crossings []int) (string, error) {
	var b strings.Builder
	b.WriteString("(mkCase [")
	for i, e := range c.Edges {
		if i > 0 {
			b.WriteString(";")
		}
		ids := make([]string, len(e))
		for j, id := range e {
			ids[j] = identLit(id)
		}
		b.WriteString("[" + strings.Join(ids, ";") + "]")
	}
	b.WriteString("] [")
	s0 := snaps[0]
	idIdx := map[string]int{}
	for i, n := range s0.Nodes {
		if i > 0 {
			b.WriteString(";")
		}
		b.WriteString(identLit(n.ID))
		idIdx[n.ID] = i
	}
	b.WriteString("] ")
	switch c.SizeMode {
	case "fixed", "fixedmap":
		fmt.Fprintf(&b, "(Some (%s,%s)) ", qlit(c.FixedW), qlit(c.FixedH))
	default:
		b.WriteString("None ")
	}
	switch c.SizeMode {
	case "map", "fixedmap":
		b.WriteString("(Some [")
		first := true
		// the size map is a Go map: any order describes it
		for _, id := range c.NodeIDs() {
			if s, ok := c.Sizes[id]; ok {
				if !first {
					b.WriteString(";")
				}
				first = false
				fmt.Fprintf(&b, "(%s,(%s,%s))", identLit(id), qlit(s[0]), qlit(s[1]))
			}
		}
		for id, s := range c.Sizes { // entries for ids that are not nodes
			if _, ok := idIdx[id]; !ok {
				if !first {
					b.WriteString(";")
				}
				first = false
				fmt.Fprintf(&b, "(%s,(%s,%s))", identLit(id), qlit(s[0]), qlit(s[1]))
			}
		}
		b.WriteString("]) ")
	default:
		b.WriteString("None ")
	}
	p1 := map[string]string{"greedy": "Greedy", "dfs": "DepthFirst", "": "Greedy"}[c.P1]
	p2 := map[string]string{"ns": "NetworkSimplex", "lp": "LongestPath", "": "NetworkSimplex"}[c.P2]
	p4 := map[string]string{"sink": "SinkColoring", "valign": "VAlign", "packright": "PackRight", "ns": "NsPositioner", "": "SinkColoring"}[c.P4]
	if p4 == "" {
		p4 = "OtherPositioner"
	}
	p5 := map[string]string{"polyline": "Polyline", "straight": "Straight", "ortho": "Ortho", "noop": "NoRouting", "splines": "OtherRouting", "": "Polyline"}[c.P5]
	if p1 == "" || p2 == "" || p5 == "" {
		return "", fmt.Errorf("case not traceable: %s %s %s", c.P1, c.P2, c.P5)
	}
	th := 28
	if c.Thoroughness > 0 {
		th = c.Thoroughness
	}
	bk := -2
	switch c.P4 {
	case "bk":
		bk = -1
	case "bk0", "bk1", "bk2", "bk3":
		bk = int(c.P4[2] - '0')
	}
	fmt.Fprintf(&b, "(mkOptions %s %s %s %s %d 4 %s %s %s) %s %s [", p1, p2, p4, p5, th, qlit(c.NodeSpacing), qlit(c.LayerSpacing), boolLit(c.VirtualOut), boolLit(c.P3 != "noop"), zlit(bk))
	for i, s := range snaps {
		if i > 0 {
			b.WriteString(";\n   ")
		}
		fmt.Fprintf(&b, "mkSnap %d%%nat %s %s", labelCode[s.Label], zlit(s.Comp), graphLit(s))
	}
	b.WriteString("] [")
	// output nodes: arena index by position in the restored snapshots, checked against the ID
	var idx []int
	for _, s := range snaps {
		if s.Label != "restored" {
			continue
		}
		for _, n := range s.GN {
			if s.Nodes[n].Virtual && !c.VirtualOut {
				continue
			}
			idx = append(idx, n)
		}
	}
	if len(idx) != len(out.Nodes) {
		return "", fmt.Errorf("harness glue: %d output nodes but %d expected from the snapshots", len(out.Nodes), len(idx))
	}
	last := snaps[len(snaps)-1]
	for i, n := range out.Nodes {
		if last.Nodes[idx[i]].ID != n.ID {
			return "", fmt.Errorf("harness glue: output node %d is %q, snapshot says %q", i, n.ID, last.Nodes[idx[i]].ID)
		}
		if i > 0 {
			b.WriteString(";")
		}
		fmt.Fprintf(&b, "mkONode %s %s %s %s %s", natLit(idx[i]), qlit(n.X), qlit(n.Y), qlit(n.W), qlit(n.H))
	}
	b.WriteString("] [")
	for i, e := range out.Edges {
		if i > 0 {
			b.WriteString(";")
		}
		f, ok1 := idIdx[e.FromID]
		t, ok2 := idIdx[e.ToID]
		if !ok1 {
			f = -1
		}
		if !ok2 {
			t = -1
		}
		fmt.Fprintf(&b, "mkOEdge %s %s %s %s", natLit(f), natLit(t), ptsLit(e.Points), boolLit(e.ArrowHeadStart))
	}
	b.WriteString("] [")
	for i, x := range crossings {
		if i > 0 {
			b.WriteString(";")
		}
		b.WriteString(zlit(x))
	}
	b.WriteString("])")
	return b.String(), nil
}

func traceCase(c Case) (lit string, out graph.Layout, err error) {
	defer func() {
		if r := recover(); r != nil {
			err = fmt.Errorf("panic: %v", r)
		}
	}()
	mon := &crossingsMonitor{}
	src := graph.EdgeSlice(cloneEdges(c.Edges))
	out, snaps := autog.VerifTrace(src, append(caseOptions(c), autog.WithMonitor(mon))...)
	mon2 := &crossingsMonitor{}
	ref := autog.Layout(graph.EdgeSlice(cloneEdges(c.Edges)), append(caseOptions(c), autog.WithMonitor(mon2))...)
	if !reflect.DeepEqual(out, ref) {
		return "", out, fmt.Errorf("hook: the traced pipeline and autog.Layout return different layouts: %s", diffLayouts(out, ref))
	}
	if !reflect.DeepEqual(mon.vals, mon2.vals) {
		return "", out, fmt.Errorf("hook: the traced pipeline and autog.Layout report different crossing counts: %v vs %v", mon.vals, mon2.vals)
	}
	lit, err = caseLit(c, out, snaps, mon.vals)
	return lit, out, err
}

// trace: generate cases with the property's generator, run them, write shards of Coq cases and an index
func runTrace(fs *flag.FlagSet, prop string, seed uint64, n int, outDir, file string) int {
	sp, ok := specs()[prop]
	if !ok {
		fmt.Fprintln(os.Stderr, "no generator for", prop)
		return 2
	}
	shardSize := 40
	if os.Getenv("VH_DEEP") != "" {
		shardSize = 8
	}
	r := NewRng(seed)
	var cases []Case
	if file != "" { // replay of recorded cases
		cases = readCases(file)
	} else {
		seen := map[string]bool{}
		for i := 0; i < n; i++ {
			c := sp.gen(r)
			if sp.traceFix != nil {
				c = sp.traceFix(c)
			}
			if os.Getenv("VH_DEEP") != "" && (len(c.Edges) > 16 || (c.P4 == "ns" && len(c.Edges) > 7)) {
				continue // the deep check evaluates the whole heuristic in the kernel: keep the instances small
			}
			if len(c.Edges) > 48 {
				continue // the kernel re-computes every step: large instances belong to the search, not to the trace
			}
			c.Name = fmt.Sprintf("%s-t%d-%d", prop, seed, i)
			if seen[c.Key()] {
				continue
			}
			seen[c.Key()] = true
			cases = append(cases, c)
		}
	}
	os.MkdirAll(outDir, 0o755)
	var shard strings.Builder
	nshard, inShard := 0, 0
	flush := func() {
		if inShard == 0 {
			return
		}
		name := fmt.Sprintf("%s/cases_%03d.v", outDir, nshard)
		imp, extra := "Check", ""
		checkFn := "check_cases"
		if os.Getenv("VH_DEEP") != "" {
			checkFn = "check_cases_deep"
		}
		if os.Getenv("VH_CERT") != "" {
			imp = "CertCheck"
			extra = "Definition M2 := Eval vm_compute in cert_cases cases.\nPrint M2.\n"
		}
		src := "From Autog Require Import " + imp + ".\nDefinition q (n : Z) (d : positive) : Q := Qmake n d.\nDefinition cases : list (nat * tcase) := [\n" +
			shard.String() + "].\nDefinition M := Eval vm_compute in " + checkFn + " cases.\nPrint M.\n" + extra
		os.WriteFile(name, []byte(src), 0o644)
		nshard++
		inShard = 0
		shard.Reset()
	}
	type idxEntry struct {
		Index int    `json:"index"`
		Case  Case   `json:"case"`
		Error string `json:"error,omitempty"`
		Shard int    `json:"shard"`
	}
	var index []idxEntry
	for i, c := range cases {
		lit, _, err := traceCase(c)
		ent := idxEntry{Index: i, Case: c, Shard: nshard}
		if err != nil {
			ent.Error = err.Error()
			ent.Shard = -1
		} else {
			if inShard > 0 {
				shard.WriteString(";\n")
			}
			fmt.Fprintf(&shard, " (%d%%nat, %s)", i, lit)
			inShard++
			if inShard >= shardSize {
				flush()
			}
		}
		index = append(index, ent)
	}
	flush()
	writeJSON(outDir+"/index.json", index)
	fmt.Printf("traced %d cases into %d shards\n", len(cases), nshard)
	return 0
}

func init() {
	extraCommands["trace"] = runTrace
}
