//go:build verif

package main

import (
	"flag"
	"fmt"
	"os"
	"strings"

	"github.com/nulab/autog"
	"github.com/nulab/autog/graph"
)

// Unit correspondence: inner functions of the library are run on SYNTHETIC states (not only on the states the
// pipeline happens to reach) and the Coq model of the same function must produce the same result. This reaches
// branches that whole-pipeline inputs hit very rarely (e.g. the interplay of neighbouring movable nodes in
// vbalance).

type unitCase struct {
	Fn     string         `json:"fn"`
	Edges  [][]string     `json:"edges"`
	Layers map[string]int `json:"layers"`
	// facts about the implementation's result, evaluated here so that a disagreement with the model can be
	// classified: does the result itself break what the property needs from this function?
	After          map[string]int `json:"after"`
	InfeasibleEdge []string       `json:"infeasible_edge,omitempty"` // an edge spanning less than one layer afterwards
	LengthBefore   int            `json:"length_before"`
	LengthAfter    int            `json:"length_after"`
	EmptyLayer     int            `json:"empty_layer"` // -1: none between 0 and the maximum
	Panic          string         `json:"panic,omitempty"`
}

// a cyclic core with a fringe of sources and sinks: entry nodes that point only at terminal nodes or at the
// core, terminal nodes fed from the core; connected, no self-loops
func genFringe(r *Rng) [][]string {
	var es []edgeI
	n := 0
	cores := 1 + r.Intn(2)
	var coreNodes []int
	for c := 0; c < cores; c++ {
		k := 2 + r.Intn(4)
		first := n
		for i := 0; i < k; i++ {
			es = append(es, edgeI{n + i, first + (i+1)%k})
		}
		for i := 0; i < k; i++ {
			coreNodes = append(coreNodes, n+i)
		}
		n += k
		if c > 0 {
			es = append(es, edgeI{coreNodes[r.Intn(len(coreNodes)-k)], first + r.Intn(k)})
		}
	}
	for ch := r.Intn(3); ch > 0; ch-- {
		a, b := coreNodes[r.Intn(len(coreNodes))], coreNodes[r.Intn(len(coreNodes))]
		if a != b {
			es = append(es, edgeI{a, b})
		}
	}
	sinks := 1 + r.Intn(3)
	var sinkNodes []int
	for i := 0; i < sinks; i++ {
		es = append(es, edgeI{coreNodes[r.Intn(len(coreNodes))], n})
		sinkNodes = append(sinkNodes, n)
		n++
	}
	for src := r.Intn(5); src > 0; src-- {
		targets := 1 + r.Intn(2)
		for t := 0; t < targets; t++ {
			if r.Bool(75) {
				es = append(es, edgeI{n, sinkNodes[r.Intn(len(sinkNodes))]})
			} else {
				es = append(es, edgeI{n, coreNodes[r.Intn(len(coreNodes))]})
			}
		}
		n++
	}
	perm := r.Perm(len(es))
	out := make([]edgeI, len(es))
	for i, j := range perm {
		out[i] = es[j]
	}
	return toStrings(out, nid)
}

// random DAG with a random FEASIBLE layering that has slack: layer = 1 + max(pred) + extra
func genUnitCase(r *Rng, fn string) unitCase {
	if fn == "p1greedy" || fn == "p1dfs" {
		for {
			var edges [][]string
			if r.Bool(50) {
				edges = genFringe(r)
			} else {
				kinds := []string{"cyclic", "multi", "dense", "cycle", "dag", "multidag"}
				es, _ := genGraph(r, kinds[r.Intn(len(kinds))], 3+r.Intn(9))
				var out []edgeI
				for _, e := range es {
					if e[0] != e[1] {
						out = append(out, e)
					}
				}
				edges = toStrings(out, nid)
			}
			if _, k := inputComponents(Case{Edges: edges}); k == 1 && len(edges) > 0 {
				return unitCase{Fn: fn, Edges: edges, Layers: map[string]int{}}
			}
		}
	}
	if fn == "ns" {
		kinds := []string{"dag", "multidag", "dense", "slack", "layered", "longdag", "dense", "multidag"}
		for {
			es, n := genGraph(r, kinds[r.Intn(len(kinds))], 6+r.Intn(14))
			// acyclic orientation: along the index order; drop self-loops
			var out []edgeI
			for _, e := range es {
				if e[0] == e[1] {
					continue
				}
				if e[0] > e[1] {
					e[0], e[1] = e[1], e[0]
				}
				out = append(out, e)
			}
			c := unitCase{Fn: fn, Edges: toStrings(out, nid), Layers: map[string]int{}}
			if _, k := inputComponents(Case{Edges: c.Edges}); k == 1 && len(out) > 0 && n > 1 {
				return c
			}
		}
	}
	kinds := []string{"dag", "longdag", "layered", "slack", "slack", "outtree", "intree", "multidag"}
	kind := kinds[r.Intn(len(kinds))]
	n := 3 + r.Intn(9)
	es, n := genGraph(r, kind, n)
	// orient along the index order where the generator does not guarantee acyclicity
	lay := make([]int, n)
	for changed, guard := true, 0; changed && guard < 4*n+8; guard++ {
		changed = false
		for _, e := range es {
			if e[0] != e[1] && lay[e[1]] < lay[e[0]]+1 {
				lay[e[1]] = lay[e[0]] + 1
				changed = true
			}
		}
	}
	// feasibility check (a cycle would make the relaxation diverge)
	ok := true
	for _, e := range es {
		if e[0] == e[1] || lay[e[1]] < lay[e[0]]+1 {
			ok = false
		}
	}
	if !ok {
		return genUnitCase(r, fn)
	}
	// add slack: push random nodes (and everything below them) down
	for k := r.Intn(n + 1); k > 0; k-- {
		v := r.Intn(n)
		lay[v] += 1 + r.Intn(2)
		for changed, guard := true, 0; changed && guard < 4*n+8; guard++ {
			changed = false
			for _, e := range es {
				if lay[e[1]] < lay[e[0]]+1 {
					lay[e[1]] = lay[e[0]] + 1
					changed = true
				}
			}
		}
	}
	if fn == "normalize" {
		off := r.Intn(7) - 3
		for i := range lay {
			lay[i] += off
		}
	}
	c := unitCase{Fn: fn, Edges: toStrings(es, nid), Layers: map[string]int{}}
	for i := 0; i < n; i++ {
		c.Layers[nid(i)] = lay[i]
	}
	return c
}

// evalUnit runs the implementation's inner function on the case and fills in the facts about its result
func evalUnit(c *unitCase) (b, a autog.VerifSnap) {
	func() {
		defer func() {
			if rec := recover(); rec != nil {
				c.Panic = fmt.Sprint(rec)
			}
		}()
		b, a = autog.VerifUnit(c.Fn, graph.EdgeSlice(c.Edges), c.Layers)
	}()
	c.EmptyLayer = -1
	if c.Panic != "" {
		return
	}
	c.After = map[string]int{}
	maxl, minl := -1<<30, 1<<30
	used := map[int]bool{}
	for _, nd := range a.Nodes {
		c.After[nd.ID] = nd.Layer
		used[nd.Layer] = true
		maxl, minl = max(maxl, nd.Layer), min(minl, nd.Layer)
	}
	for _, e := range c.Edges {
		c.LengthBefore += c.Layers[e[1]] - c.Layers[e[0]]
		c.LengthAfter += c.After[e[1]] - c.After[e[0]]
		if c.After[e[1]]-c.After[e[0]] < 1 && c.InfeasibleEdge == nil {
			c.InfeasibleEdge = e
		}
	}
	for l := minl; l <= maxl; l++ {
		if !used[l] {
			c.EmptyLayer = l
			break
		}
	}
	return
}

func runUnit(fs *flag.FlagSet, prop string, seed uint64, n int, outDir, file string) int {
	fn := prop // -prop carries the function name
	if fn == "crossings" {
		return runCrossUnit(seed, n, outDir)
	}
	if strings.HasPrefix(fn, "route-") {
		return runRouteUnit(strings.TrimPrefix(fn, "route-"), seed, n, outDir)
	}
	if fn == "order" {
		return runOrderUnit(seed, n, outDir)
	}
	if strings.HasPrefix(fn, "pos-") {
		return runPosUnit(strings.TrimPrefix(fn, "pos-"), seed, n, outDir)
	}
	code := map[string]int{"vbalance": 1, "normalize": 2, "ns": 3, "p1greedy": 4, "p1dfs": 5}[fn]
	if code == 0 {
		fmt.Fprintln(os.Stderr, "unknown unit function", fn)
		return 2
	}
	r := NewRng(seed)
	os.MkdirAll(outDir, 0o755)
	var cases []unitCase
	var shard strings.Builder
	nshard, inShard := 0, 0
	flush := func() {
		if inShard == 0 {
			return
		}
		src := "From Autog Require Import Check.\nDefinition q (n : Z) (d : positive) : Q := Qmake n d.\nDefinition units : list (nat * (nat * graph * graph)) := [\n" +
			shard.String() + "].\nDefinition U := Eval vm_compute in unit_cases_failing units.\nPrint U.\n"
		if fn == "ns" {
			src = "From Autog Require Import CertCheck.\nDefinition q (n : Z) (d : positive) : Q := Qmake n d.\nDefinition units : list (nat * (nat * graph * graph)) := [\n" +
				shard.String() + "].\nDefinition V := Eval vm_compute in unit_ns_failing units.\nPrint V.\n"
		}
		os.WriteFile(fmt.Sprintf("%s/unit_%03d.v", outDir, nshard), []byte(src), 0o644)
		nshard++
		inShard = 0
		shard.Reset()
	}
	for i := 0; i < n; i++ {
		c := genUnitCase(r, fn)
		b, a := evalUnit(&c)
		cases = append(cases, c)
		if c.Panic != "" {
			continue
		}
		if inShard > 0 {
			shard.WriteString(";\n")
		}
		fmt.Fprintf(&shard, " (%d%%nat, (%d%%nat, %s, %s))", i, code, graphLit(b), graphLit(a))
		inShard++
		if inShard >= 150 || (fn == "ns" && inShard >= 12) {
			flush()
		}
	}
	flush()
	writeJSON(outDir+"/units.json", cases)
	fmt.Printf("unit %s: %d cases into %d shards\n", fn, len(cases), nshard)
	return 0
}

func init() {
	extraCommands["unit"] = runUnit
}
