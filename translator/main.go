// Translator: regenerates, from the Go source of nulab/autog as it is now, the facts the Coq development
// states C07, C15 and C18 about: package-level variables and every access to them, range loops over maps,
// sources of non-determinism (time, math/rand, unstable sorts, goroutines, select), and the monitor package
// as a small state machine. Output: a JSON fact file and a Coq file (Generated/Facts.v).
//
// Only syntax and go/types information are used. Files with the build tag "verif" and test files are skipped.
package main

import (
	"bytes"
	"crypto/sha1"
	"encoding/json"
	"fmt"
	"go/ast"
	"go/build"
	"go/importer"
	"go/parser"
	"go/printer"
	"go/token"
	"go/types"
	"os"
	"path/filepath"
	"sort"
	"strings"
)

type Access struct {
	Var    string `json:"var"`
	Pkg    string `json:"pkg"`
	File   string `json:"file"`
	Func   string `json:"func"`
	Line   int    `json:"line"`
	Write  bool   `json:"write"`
	Guards string `json:"guards"` // enclosing if-conditions, innermost last
}

type Site struct {
	Kind string `json:"kind"` // maprange | time | rand | sort | go | select | mapkeys | recover
	Pkg  string `json:"pkg"`
	File string `json:"file"`
	Func string `json:"func"`
	Line int    `json:"line"`
	Text string `json:"text"`
	Hash string `json:"hash"`
	Type string `json:"type,omitempty"`
}

type GlobalVar struct {
	Pkg  string `json:"pkg"`
	Name string `json:"name"`
	Type string `json:"type"`
	File string `json:"file"`
}

type Facts struct {
	Globals  []GlobalVar `json:"globals"`
	Accesses []Access    `json:"accesses"`
	Sites    []Site      `json:"sites"`
	Monitor  []MonFunc   `json:"monitor"`
	IDReads  []Site      `json:"id_reads"`
	Protocol []string    `json:"layout_protocol"`
	OptWrites []string   `json:"layout_option_writes"`
	RefInits [][3]string `json:"ref_inits"`
}

// monitor state machine: each function is a list of guarded actions
type MonFunc struct {
	Name  string   `json:"name"`
	Guard string   `json:"guard"` // "param" (monitor != nil) | "m" (m != nil) | "" (unguarded) | "?" (not understood)
	Acts  []string `json:"acts"`  // "m=param" | "m=nil" | "p=phase" | "p=0" | "a=alg" | "a=empty" | "deliver"
}

func src(fset *token.FileSet, n ast.Node) string {
	var b bytes.Buffer
	printer.Fprint(&b, fset, n)
	return strings.Join(strings.Fields(b.String()), " ")
}

func main() {
	root := "/repo"
	if len(os.Args) > 1 {
		root = os.Args[1]
	}
	outJSON, outV := "facts.json", "Facts.v"
	if len(os.Args) > 2 {
		outJSON = os.Args[2]
	}
	if len(os.Args) > 3 {
		outV = os.Args[3]
	}
	os.Chdir(root)
	fset := token.NewFileSet()
	var dirs []string
	filepath.Walk(root, func(p string, info os.FileInfo, err error) error {
		if err == nil && info.IsDir() {
			if strings.HasPrefix(info.Name(), ".") && p != root {
				return filepath.SkipDir
			}
			dirs = append(dirs, p)
		}
		return nil
	})
	sort.Strings(dirs)
	ctx := build.Default
	ctx.BuildTags = nil // the guard "verif" is off: hook files are excluded
	imp := importer.ForCompiler(fset, "source", nil)
	facts := Facts{}
	for _, d := range dirs {
		bp, err := ctx.ImportDir(d, 0)
		if err != nil || len(bp.GoFiles) == 0 {
			continue
		}
		rel, _ := filepath.Rel(root, d)
		if strings.HasPrefix(rel, "internal/testfiles") || strings.HasPrefix(rel, "cmd") {
			continue
		}
		var files []*ast.File
		for _, f := range bp.GoFiles {
			af, err := parser.ParseFile(fset, filepath.Join(d, f), nil, parser.ParseComments)
			if err != nil {
				fmt.Fprintln(os.Stderr, "parse:", err)
				os.Exit(1)
			}
			files = append(files, af)
		}
		info := &types.Info{Types: map[ast.Expr]types.TypeAndValue{}, Uses: map[*ast.Ident]types.Object{}, Defs: map[*ast.Ident]types.Object{}, Selections: map[*ast.SelectorExpr]*types.Selection{}}
		conf := types.Config{Importer: imp, Error: func(err error) {}}
		pkg, _ := conf.Check(bp.ImportPath, fset, files, info)
		if pkg == nil {
			fmt.Fprintln(os.Stderr, "type check failed for", d)
			os.Exit(1)
		}
		analyse(fset, rel, pkg, files, info, &facts)
	}
	sort.Slice(facts.Sites, func(i, j int) bool {
		a, b := facts.Sites[i], facts.Sites[j]
		return a.File < b.File || (a.File == b.File && a.Line < b.Line)
	})
	b, _ := json.MarshalIndent(facts, "", " ")
	os.WriteFile(outJSON, b, 0o644)
	os.WriteFile(outV, []byte(coq(facts)), 0o644)
}

// isGraphNode: (a pointer to) the named type Node of a package called graph (internal/graph.Node and the public
// graph.Node); inside the package itself the type prints without its import path, so the name is compared
func isGraphNode(t types.Type) bool {
	if p, ok := t.(*types.Pointer); ok {
		t = p.Elem()
	}
	n, ok := t.(*types.Named)
	return ok && n.Obj().Name() == "Node" && n.Obj().Pkg() != nil && n.Obj().Pkg().Name() == "graph"
}

func isMap(t types.Type) bool {
	if t == nil {
		return false
	}
	_, ok := t.Underlying().(*types.Map)
	return ok
}

func analyse(fset *token.FileSet, rel string, pkg *types.Package, files []*ast.File, info *types.Info, facts *Facts) {
	globals := map[types.Object]bool{}
	for _, f := range files {
		fname := filepath.Join(rel, filepath.Base(fset.Position(f.Pos()).Filename))
		for _, d := range f.Decls {
			gd, ok := d.(*ast.GenDecl)
			if !ok || gd.Tok != token.VAR {
				continue
			}
			for _, s := range gd.Specs {
				vs := s.(*ast.ValueSpec)
				for _, n := range vs.Names {
					if n.Name == "_" {
						continue
					}
					obj := info.Defs[n]
					globals[obj] = true
					if len(vs.Values) == len(vs.Names) {
						for i2, nm := range vs.Names {
							if nm == n {
								refInits(fset, info, rel, n.Name, "", vs.Values[i2], facts)
							}
						}
					}
					facts.Globals = append(facts.Globals, GlobalVar{Pkg: rel, Name: n.Name, Type: obj.Type().String(), File: fname})
				}
			}
		}
	}
	for _, f := range files {
		fname := filepath.Join(rel, filepath.Base(fset.Position(f.Pos()).Filename))
		for _, d := range f.Decls {
			fd, ok := d.(*ast.FuncDecl)
			if !ok || fd.Body == nil {
				continue
			}
			fn := fd.Name.Name
			if fd.Recv != nil && len(fd.Recv.List) > 0 {
				fn = src(fset, fd.Recv.List[0].Type) + "." + fn
			}
			if fd.Recv == nil && fname == "internal/monitor/monitor.go" {
				facts.Monitor = append(facts.Monitor, monitorFunc(fset, fd))
			}
			if fname == "autolayout.go" && fn == "Layout" {
				facts.Protocol = layoutProtocol(fset, fd)
				facts.OptWrites = layoutOptionWrites(fset, fd)
			}
			// parameters and receivers of slice or map type: writing an element through them changes the caller's data
			isParam := map[*types.Var]bool{}
			addParams := func(fl *ast.FieldList) {
				if fl == nil {
					return
				}
				for _, f := range fl.List {
					for _, n := range f.Names {
						if v, ok := info.Defs[n].(*types.Var); ok {
							switch v.Type().Underlying().(type) {
							case *types.Slice, *types.Map:
								isParam[v] = true
							}
						}
					}
				}
			}
			addParams(fd.Recv)
			addParams(fd.Type.Params)
			var guards []string
			written := map[*ast.Ident]bool{}
			var walk func(n ast.Node)
			walk = func(n ast.Node) {
				if n == nil {
					return
				}
				switch x := n.(type) {
				case *ast.IfStmt:
					if x.Init != nil {
						walk(x.Init)
					}
					walk(x.Cond)
					guards = append(guards, src(fset, x.Cond))
					walk(x.Body)
					guards = guards[:len(guards)-1]
					if x.Else != nil {
						guards = append(guards, "!("+src(fset, x.Cond)+")")
						walk(x.Else)
						guards = guards[:len(guards)-1]
					}
					return
				case *ast.AssignStmt:
					for _, l := range x.Lhs {
						markWrites(l, written)
						if root := elemWriteRoot(l); root != nil {
							if v, ok := info.Uses[root].(*types.Var); ok && isParam[v] {
								facts.Sites = append(facts.Sites, site(fset, "paramwrite", pkg, fname, fn, x))
							}
						}
					}
				case *ast.IncDecStmt:
					markWrites(x.X, written)
					if root := elemWriteRoot(x.X); root != nil {
						if v, ok := info.Uses[root].(*types.Var); ok && isParam[v] {
							facts.Sites = append(facts.Sites, site(fset, "paramwrite", pkg, fname, fn, x))
						}
					}
				case *ast.UnaryExpr:
					if x.Op == token.AND {
						markWrites(x.X, written) // taking the address of a global counts as a write
					}
				case *ast.RangeStmt:
					// an element of a caller-owned slice of slices (or map of slices) is caller-owned too
					if root := rootIdent(x.X); root != nil {
						if v, ok := info.Uses[root].(*types.Var); ok && isParam[v] {
							for _, kv := range []ast.Expr{x.Key, x.Value} {
								if id, ok := kv.(*ast.Ident); ok {
									if dv, ok := info.Defs[id].(*types.Var); ok {
										switch dv.Type().Underlying().(type) {
										case *types.Slice, *types.Map:
											isParam[dv] = true
										}
									}
								}
							}
						}
					}
					if tv, ok := info.Types[x.X]; ok && isMap(tv.Type) {
						body := src(fset, x)
						facts.Sites = append(facts.Sites, Site{Kind: "maprange", Pkg: pkg.Path(), File: fname, Func: fn, Line: fset.Position(x.Pos()).Line, Text: body, Hash: hash(body), Type: tv.Type.String()})
					}
				case *ast.GoStmt:
					facts.Sites = append(facts.Sites, site(fset, "go", pkg, fname, fn, x))
				case *ast.SelectStmt:
					facts.Sites = append(facts.Sites, site(fset, "select", pkg, fname, fn, x))
				case *ast.CallExpr:
					if sel, ok := x.Fun.(*ast.SelectorExpr); ok {
						if id, ok := sel.X.(*ast.Ident); ok {
							if pn, ok := info.Uses[id].(*types.PkgName); ok {
								p := pn.Imported().Path()
								switch {
								case strings.HasSuffix(p, "internal/monitor") && (sel.Sel.Name == "Set" || sel.Sel.Name == "Reset"):
									facts.Sites = append(facts.Sites, site(fset, "mon"+sel.Sel.Name, pkg, fname, fn, x))
								case p == "time":
									facts.Sites = append(facts.Sites, site(fset, "time", pkg, fname, fn, x))
								case p == "math/rand" || p == "math/rand/v2" || p == "crypto/rand":
									facts.Sites = append(facts.Sites, site(fset, "rand", pkg, fname, fn, x))
								case p == "sort" || (p == "slices" && strings.HasPrefix(sel.Sel.Name, "Sort")):
									facts.Sites = append(facts.Sites, site(fset, "sort", pkg, fname, fn, x))
								case p == "maps" && (sel.Sel.Name == "Keys" || sel.Sel.Name == "Values" || sel.Sel.Name == "All"):
									facts.Sites = append(facts.Sites, site(fset, "mapkeys", pkg, fname, fn, x))
								}
							}
						}
						if sel.Sel.Name == "Keys" {
							if tv, ok := info.Types[sel.X]; ok && isMap(tv.Type) {
								facts.Sites = append(facts.Sites, site(fset, "mapkeys", pkg, fname, fn, x))
							}
						}
					}
				case *ast.SelectorExpr:
					if x.Sel.Name == "ID" {
						if s, ok := info.Selections[x]; ok && s.Kind() == types.FieldVal && isGraphNode(s.Recv()) {
							facts.IDReads = append(facts.IDReads, site(fset, "idread", pkg, fname, fn, x))
						}
					}
				}
				// generic traversal
				ast.Inspect(n, func(c ast.Node) bool {
					if c == n {
						return true
					}
					if c != nil {
						walk(c)
					}
					return false
				})
			}
			walk(fd.Body)
			// accesses to package-level variables
			guardsAt := map[token.Pos]string{}
			var gw func(n ast.Node, gs []string)
			gw = func(n ast.Node, gs []string) {
				ast.Inspect(n, func(c ast.Node) bool {
					if c == nil {
						return false
					}
					if is, ok := c.(*ast.IfStmt); ok && c != n {
						if is.Init != nil {
							gw(is.Init, gs)
						}
						gw(is.Cond, gs)
						gw(is.Body, append(append([]string{}, gs...), src(fset, is.Cond)))
						if is.Else != nil {
							gw(is.Else, append(append([]string{}, gs...), "!("+src(fset, is.Cond)+")"))
						}
						return false
					}
					if id, ok := c.(*ast.Ident); ok {
						guardsAt[id.Pos()] = strings.Join(gs, " && ")
					}
					return true
				})
			}
			gw(fd.Body, nil)
			ast.Inspect(fd.Body, func(c ast.Node) bool {
				id, ok := c.(*ast.Ident)
				if !ok {
					return true
				}
				obj := info.Uses[id]
				if obj == nil {
					return true
				}
				if v, ok := obj.(*types.Var); ok && !v.IsField() && v.Parent() == v.Pkg().Scope() {
					facts.Accesses = append(facts.Accesses, Access{Var: v.Name(), Pkg: pkgRel(v.Pkg().Path(), rel), File: fname, Func: fn, Line: fset.Position(id.Pos()).Line, Write: written[id], Guards: guardsAt[id.Pos()]})
				}
				return true
			})
		}
	}
}

// package paths are reported relative to the module root ("." is the root package)
func pkgRel(path, rel string) string {
	const mod = "github.com/nulab/autog"
	if path == "." {
		return rel
	}
	if path == mod {
		return "."
	}
	if strings.HasPrefix(path, mod+"/") {
		return strings.TrimPrefix(path, mod+"/")
	}
	if !strings.Contains(path, "/") && !strings.Contains(path, ".") {
		return rel
	}
	return path
}

// root identifier of an element write x[i] = ..., x[i][j] = ..., x[i].f = ... (nil for plain variables)
func elemWriteRoot(e ast.Expr) *ast.Ident {
	seenIndex := false
	for {
		switch x := e.(type) {
		case *ast.IndexExpr:
			seenIndex = true
			e = x.X
		case *ast.SelectorExpr:
			e = x.X
		case *ast.ParenExpr:
			e = x.X
		case *ast.StarExpr:
			e = x.X
		case *ast.Ident:
			if seenIndex {
				return x
			}
			return nil
		default:
			return nil
		}
	}
}

func isRefType(t types.Type) bool {
	if t == nil {
		return false
	}
	switch t.Underlying().(type) {
	case *types.Slice, *types.Map, *types.Pointer, *types.Chan, *types.Signature, *types.Interface:
		return true
	}
	return false
}

// refInits lists the reference-typed parts (slice, map, pointer, channel, function, interface) of a package-level
// variable's initialiser that are set to something other than nil: copying the variable by value shares them.
func refInits(fset *token.FileSet, info *types.Info, pkg, name, path string, e ast.Expr, facts *Facts) {
	switch x := e.(type) {
	case *ast.CompositeLit:
		if tv, ok := info.Types[x]; ok && isRefType(tv.Type) {
			facts.RefInits = append(facts.RefInits, [3]string{pkg, name, path + " (" + tv.Type.String() + ")"})
			return
		}
		for _, el := range x.Elts {
			if kv, ok := el.(*ast.KeyValueExpr); ok {
				refInits(fset, info, pkg, name, path+"."+src(fset, kv.Key), kv.Value, facts)
			} else {
				refInits(fset, info, pkg, name, path+".[]", el, facts)
			}
		}
	case *ast.Ident:
		if x.Name == "nil" {
			return
		}
		if tv, ok := info.Types[x]; ok && isRefType(tv.Type) {
			facts.RefInits = append(facts.RefInits, [3]string{pkg, name, path + " (" + tv.Type.String() + ")"})
		}
	default:
		if tv, ok := info.Types[e]; ok && isRefType(tv.Type) {
			facts.RefInits = append(facts.RefInits, [3]string{pkg, name, path + " (" + tv.Type.String() + ")"})
		}
	}
}

func rootIdent(e ast.Expr) *ast.Ident {
	for {
		switch x := e.(type) {
		case *ast.IndexExpr:
			e = x.X
		case *ast.SelectorExpr:
			e = x.X
		case *ast.ParenExpr:
			e = x.X
		case *ast.StarExpr:
			e = x.X
		case *ast.Ident:
			return x
		default:
			return nil
		}
	}
}

func markWrites(e ast.Expr, written map[*ast.Ident]bool) {
	switch x := e.(type) {
	case *ast.Ident:
		written[x] = true
	case *ast.SelectorExpr:
		markWrites(x.X, written)
	case *ast.IndexExpr:
		markWrites(x.X, written)
	case *ast.StarExpr:
		markWrites(x.X, written)
	case *ast.ParenExpr:
		markWrites(x.X, written)
	}
}

func site(fset *token.FileSet, kind string, pkg *types.Package, fname, fn string, n ast.Node) Site {
	t := src(fset, n)
	return Site{Kind: kind, Pkg: pkg.Path(), File: fname, Func: fn, Line: fset.Position(n.Pos()).Line, Text: t, Hash: hash(t)}
}

func hash(s string) string {
	h := sha1.Sum([]byte(s))
	return fmt.Sprintf("%x", h[:6])
}

// monitorFunc understands exactly the shape of internal/monitor/monitor.go: a single if statement whose
// condition is `<ident> != nil` and whose body is a list of simple assignments / one m.Log call.
func monitorFunc(fset *token.FileSet, fd *ast.FuncDecl) MonFunc {
	mf := MonFunc{Name: fd.Name.Name, Guard: "?"}
	if len(fd.Body.List) != 1 {
		return mf
	}
	is, ok := fd.Body.List[0].(*ast.IfStmt)
	if !ok || is.Else != nil || is.Init != nil {
		return mf
	}
	be, ok := is.Cond.(*ast.BinaryExpr)
	if !ok || be.Op != token.NEQ || src(fset, be.Y) != "nil" {
		return mf
	}
	switch src(fset, be.X) {
	case "m":
		mf.Guard = "m"
	case "monitor":
		mf.Guard = "param"
	default:
		return mf
	}
	for _, st := range is.Body.List {
		t := src(fset, st)
		switch t {
		case "m = monitor":
			mf.Acts = append(mf.Acts, "m=param")
		case "m = nil":
			mf.Acts = append(mf.Acts, "m=nil")
		case "p = proc.Phase()":
			mf.Acts = append(mf.Acts, "p=phase")
		case "a = proc.String()":
			mf.Acts = append(mf.Acts, "a=alg")
		case "p = 0":
			mf.Acts = append(mf.Acts, "p=0")
		case `a = ""`:
			mf.Acts = append(mf.Acts, "a=empty")
		case "m.Log(p, a, key, val)":
			mf.Acts = append(mf.Acts, "deliver")
		default:
			mf.Guard = "?"
			mf.Acts = append(mf.Acts, "?"+t)
		}
	}
	return mf
}

// layoutProtocol summarises the top-level statements of Layout up to and including the deferred Reset:
// "other" for statements that cannot call into the monitor package, "set" for imonitor.Set(<opts>.monitor),
// "defer-reset" for defer imonitor.Reset().
func layoutProtocol(fset *token.FileSet, fd *ast.FuncDecl) []string {
	var out []string
	for _, st := range fd.Body.List {
		t := src(fset, st)
		switch {
		case t == "imonitor.Set(layoutOpts.monitor)":
			out = append(out, "set")
		case t == "defer imonitor.Reset()":
			out = append(out, "defer-reset")
			return out
		case strings.Contains(t, "imonitor."):
			out = append(out, "?"+t)
		default:
			out = append(out, "other")
		}
	}
	return out
}

// layoutOptionWrites lists the statements of Layout (at any depth) that assign to a part of its local copy of the
// options (the variable initialised from defaultOptions): after the Option functions have been applied the options
// must be the same for every connected component, whatever the whole graph looks like.
func layoutOptionWrites(fset *token.FileSet, fd *ast.FuncDecl) []string {
	out := []string{}
	var optVars []string
	ast.Inspect(fd.Body, func(n ast.Node) bool {
		switch st := n.(type) {
		case *ast.AssignStmt:
			if st.Tok == token.DEFINE && len(st.Lhs) == 1 && len(st.Rhs) == 1 {
				if id, ok := st.Lhs[0].(*ast.Ident); ok && src(fset, st.Rhs[0]) == "defaultOptions" {
					optVars = append(optVars, id.Name)
					return true
				}
			}
			for _, l := range st.Lhs {
				if r := rootIdent(l); r != nil {
					for _, v := range optVars {
						if r.Name == v {
							out = append(out, src(fset, st))
						}
					}
				}
			}
		case *ast.IncDecStmt:
			if r := rootIdent(st.X); r != nil {
				for _, v := range optVars {
					if r.Name == v {
						out = append(out, src(fset, st))
					}
				}
			}
		}
		return true
	})
	return out
}

func coqStr(s string) string { return `"` + strings.ReplaceAll(s, `"`, `""`) + `"` }

func coq(f Facts) string {
	var b strings.Builder
	b.WriteString("(* GENERATED by /verif/translator from the Go source of /repo — do not edit. *)\n")
	b.WriteString("From Coq Require Import String List Bool.\nImport ListNotations.\nOpen Scope string_scope.\n\n")
	b.WriteString("(* package-level variables: (package, name) *)\nDefinition globals : list (string * string) := [\n")
	for i, g := range f.Globals {
		sep := ";"
		if i == len(f.Globals)-1 {
			sep = ""
		}
		fmt.Fprintf(&b, "  (%s, %s)%s\n", coqStr(g.Pkg), coqStr(g.Name), sep)
	}
	b.WriteString("].\n\n(* every access to a package-level variable: ((package, name), (file, function), is_write, guards) *)\n")
	b.WriteString("Definition accesses : list ((string * string) * (string * string) * bool * string) := [\n")
	for i, a := range f.Accesses {
		sep := ";"
		if i == len(f.Accesses)-1 {
			sep = ""
		}
		w := "false"
		if a.Write {
			w = "true"
		}
		fmt.Fprintf(&b, "  ((%s, %s), (%s, %s), %s, %s)%s\n", coqStr(a.Pkg), coqStr(a.Var), coqStr(a.File), coqStr(a.Func), w, coqStr(a.Guards), sep)
	}
	b.WriteString("].\n\n(* order- or time-dependent constructs: (kind, file, function, hash of the normalised source text) *)\n")
	b.WriteString("Definition sites : list (string * string * string * string) := [\n")
	for i, s := range f.Sites {
		sep := ";"
		if i == len(f.Sites)-1 {
			sep = ""
		}
		fmt.Fprintf(&b, "  (%s, %s, %s, %s)%s\n", coqStr(s.Kind), coqStr(s.File), coqStr(s.Func), coqStr(s.Hash), sep)
	}
	b.WriteString("].\n\n(* reads of a node's ID field: (file, function) *)\nDefinition id_reads : list (string * string) := [\n")
	seen := map[string]bool{}
	var ids []string
	for _, s := range f.IDReads {
		k := coqStr(s.File) + ", " + coqStr(s.Func)
		if !seen[k] {
			seen[k] = true
			ids = append(ids, k)
		}
	}
	for i, k := range ids {
		sep := ";"
		if i == len(ids)-1 {
			sep = ""
		}
		fmt.Fprintf(&b, "  (%s)%s\n", k, sep)
	}
	b.WriteString("].\n\n(* internal/monitor/monitor.go as guarded actions: (function, guard, actions) *)\n")
	b.WriteString("Definition monitor_funcs : list (string * string * list string) := [\n")
	for i, m := range f.Monitor {
		sep := ";"
		if i == len(f.Monitor)-1 {
			sep = ""
		}
		acts := make([]string, len(m.Acts))
		for j, a := range m.Acts {
			acts[j] = coqStr(a)
		}
		fmt.Fprintf(&b, "  (%s, %s, [%s])%s\n", coqStr(m.Name), coqStr(m.Guard), strings.Join(acts, "; "), sep)
	}
	b.WriteString("].\n\n(* reference-typed parts of package-level initialisers that are not nil: (package, variable, path) *)\nDefinition ref_inits : list (string * string * string) := [")
	for i, r := range f.RefInits {
		if i > 0 {
			b.WriteString("; ")
		}
		fmt.Fprintf(&b, "(%s, %s, %s)", coqStr(r[0]), coqStr(r[1]), coqStr(r[2]))
	}
	b.WriteString("].\n\n(* top-level statements of Layout up to the deferred Reset *)\nDefinition layout_protocol : list string := [")
	for i, p := range f.Protocol {
		if i > 0 {
			b.WriteString("; ")
		}
		b.WriteString(coqStr(p))
	}
	b.WriteString("].\n\n(* assignments in Layout to its own copy of the options *)\nDefinition layout_option_writes : list string := [")
	for i, p := range f.OptWrites {
		if i > 0 {
			b.WriteString("; ")
		}
		b.WriteString(coqStr(p))
	}
	b.WriteString("].\n")
	return b.String()
}
